#!/bin/sh
# usage: batch.sh <list> <outdir>   list lines: <patch> <demo> <pkgdir> <prop> [<prop>...] (paths relative to outdir)
# For each line: confirm the seeded change (selftest/confirm.sh) and run the quick checks against it.
L="$1"; D="$2"
while read -r patch demo pkg props; do
  [ -z "$patch" ] && continue
  echo "#### $patch"
  /verif/selftest/confirm.sh "$D/$patch" "$D/$demo" "$pkg" 2>&1 | tail -1
  /verif/selftest/runchecks.sh "$D/$patch" $props
done < "$L"
echo BATCHDONE

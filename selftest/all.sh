#!/bin/sh
# usage: all.sh [<seeded-dir-glob>]   Re-runs every stored seeded change against the quick checks of
# the properties named in its meta.json (property + any other Cxx mentioned in caught_by) and prints
# one line per change: DETECTED / MISSED / INCONCLUSIVE. Works on a private copy of /verif (harness,
# checks.json, engine binary) so that /verif can be edited meanwhile; /repo itself is never touched
# (scratch worktrees). Exit 1 if any change is not detected.
set -u
SNAP=$(mktemp -d /tmp/verifsnap.XXXXXX)
(cd /verif && cp -r bin harness checks.json known_findings.json selftest "$SNAP"/) || exit 2
bad=0
for d in /verif/seeded/${1:-*}/; do
  n=$(basename "$d")
  props=$(python3 - "$d/meta.json" <<'PY'
import json,re,sys
j=json.load(open(sys.argv[1]))
ps=[j['property']]
for p in re.findall(r'C\d\d', j.get('caught_by','')):
    if p not in ps: ps.append(p)
# a change is detected if any of the listed properties' checks exits 1; run the home property
# first, the others only matter when it misses
print(' '.join(ps))
PY
)
  verdict=MISSED
  for p in $props; do
    out=$(VERIF_DIR="$SNAP" "$SNAP"/selftest/runchecks.sh "$d/patch.diff" "$p" 2>&1)
    case "$out" in
      *"exit=1"*) verdict="DETECTED by $p"; break;;
      *"exit=2"*) verdict="INCONCLUSIVE at $p";;
    esac
  done
  if grep -q '"expected": "not-detected"' "$d/meta.json"; then
    echo "$n: $verdict (recorded as not detected, see meta.json)"
  else
    echo "$n: $verdict"
    case "$verdict" in DETECTED*) ;; *) bad=1;; esac
  fi
done
rm -rf "$SNAP"
echo ALLDONE bad=$bad
exit $bad

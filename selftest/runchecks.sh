#!/bin/sh
# usage: runchecks.sh <patch.diff> <prop> [<prop>...]
# Applies the patch to a scratch worktree of /repo HEAD (so that /repo itself stays untouched and
# other runs are not disturbed), points the quick checks at it with VERIF_REPO, removes the worktree.
# (Equivalent to: git -C /repo apply <patch>; ./check <prop> quick; git -C /repo checkout -- .)
set -u
P="$1"; shift
W=$(mktemp -d /tmp/mutwt.XXXXXX); rmdir "$W"
git -C /repo worktree add -q --detach "$W" HEAD || exit 2
git -C "$W" apply "$P" || { echo "patch does not apply"; git -C /repo worktree remove --force "$W"; exit 2; }
for prop in "$@"; do
  V="${VERIF_DIR:-/verif}"
  out=$(cd "$V" && VERIF_DIR="$V" VERIF_REPO="$W" timeout 1500 ./bin/symgo check -prop "$prop" -tier quick -no-evidence 2>&1); rc=$?
  echo "== $prop exit=$rc"; echo "$out" | grep -E "VIOLATION|counterexample|INCONCLUSIVE|KNOWN" | cut -c1-260 | head -8
done
git -C /repo worktree remove --force "$W"

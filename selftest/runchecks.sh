#!/bin/sh
# usage: runchecks.sh <patch.diff> <prop> [<prop>...]   applies the patch to /repo, runs the quick checks, undoes it
set -u
P="$1"; shift
git -C /repo diff --quiet || { echo "/repo not clean"; exit 2; }
git -C /repo apply "$P" || { echo "patch does not apply to /repo"; exit 2; }
for prop in "$@"; do
  out=$(cd /verif && timeout 1500 ./bin/symgo check -prop "$prop" -tier quick -no-evidence 2>&1); rc=$?
  echo "== $prop exit=$rc"; echo "$out" | grep -E "VIOLATION|counterexample|INCONCLUSIVE|KNOWN" | cut -c1-260 | head -8
done
git -C /repo checkout -- .
git -C /repo status --short | head -3

#!/usr/bin/env python3
# Regenerates seeded/INDEX.md from the meta.json files.
import json, glob, os
rows = []
for f in sorted(glob.glob(os.path.join(os.path.dirname(__file__), '..', 'seeded', '*', 'meta.json'))):
    m = json.load(open(f))
    esc = lambda s: str(s or '').replace('|', '\\|').replace('\n', ' ')
    rows.append('| %s | %s | %s | %s | %s | %s |' % (os.path.basename(os.path.dirname(f)), esc(m.get('property')),
        esc(m.get('round', '1-3')), esc(m.get('breaks')), esc(m.get('caught_by')), esc(m.get('history'))))
out = ['# Seeded changes and the checks that catch them', '',
       'One directory per change (`patch.diff`, `demo_test.go`, `agent_notes.md`, `meta.json`). Generated from the `meta.json` files (`selftest/index.py`); `selftest/all.sh` re-runs them.', '',
       '| change | property | round | what it breaks | caught by | history |', '|---|---|---|---|---|---|'] + rows
open(os.path.join(os.path.dirname(__file__), '..', 'seeded', 'INDEX.md'), 'w').write('\n'.join(out) + '\n')
print(len(rows), 'changes')

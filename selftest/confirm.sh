#!/bin/sh
# usage: confirm.sh <patch.diff> <demo_test.go> <pkgdir relative to repo root, e.g. . or pkg/ipmi>
# Confirms in a scratch worktree of /repo HEAD that: the patch applies and builds, the existing tests pass with it,
# the demo fails with it and passes without it. Removes the worktree afterwards.
set -u
export GOFLAGS=-mod=mod GOPROXY=off GOSUMDB=off GOTOOLCHAIN=local
P="$1"; D="$2"; PK="$3"
W=$(mktemp -d /tmp/confirm.XXXXXX); rmdir "$W"
git -C /repo worktree add -q --detach "$W" HEAD || exit 2
cd "$W"
res=""
git apply "$P" || { echo "RESULT patch-does-not-apply"; git -C /repo worktree remove --force "$W"; exit 1; }
go build ./... >/dev/null 2>&1 && res="$res build=ok" || res="$res build=FAIL"
go test -vet=off -count=1 ./... >/tmp/confirm_tests.log 2>&1 && res="$res existing-tests=pass" || res="$res existing-tests=FAIL"
cp "$D" "$PK/zz_seeded_demo_test.go"
timeout 300 go test -vet=off -count=1 "./$PK" >/tmp/confirm_demo_with.log 2>&1 && res="$res demo-with-patch=pass(UNEXPECTED)" || res="$res demo-with-patch=fail(expected)"
git checkout -q -- . 
git diff --quiet || res="$res (go.mod changed)"
git checkout -q -- . 2>/dev/null
timeout 300 go test -vet=off -count=1 "./$PK" >/tmp/confirm_demo_without.log 2>&1 && res="$res demo-without-patch=pass(expected)" || res="$res demo-without-patch=FAIL(UNEXPECTED)"
echo "RESULT$res"
cd /; git -C /repo worktree remove --force "$W"

package dcmi

import (
	"time"

	"github.com/gebn/bmc/pkg/ipmi"

	"github.com/google/gopacket"
)

func bit(b byte, n uint) bool { return (b>>n)&1 == 1 }

// Reference decoders for the DCMI responses (DCMI 1.0/1.1/1.5 "Get DCMI Capabilities
// Info" parameters 1-5, "Get Power Reading", "Get DCMI Sensor Info"). The capability
// responses start with the conformance version (major, minor) and parameter revision.
// v1.0 bodies carry capability bits that later versions made mandatory (reported true).

func refSupported(d []byte) (*GetDCMICapabilitiesInfoSupportedCapabilitiesRsp, bool) {
	if len(d) < 6 {
		return nil, false
	}
	r := &GetDCMICapabilitiesInfoSupportedCapabilitiesRsp{}
	r.MajorVersion, r.MinorVersion, r.Revision = d[0], d[1], d[2]
	b := d[3:]
	v10 := d[0] == 1 && d[1] == 0
	r.TemperatureMonitor, r.ChassisPower, r.SELLogging, r.Identification = true, true, true, true
	r.VLANCapable, r.SOLSupported, r.OOBPrimaryLANChannelAvailable = true, true, true
	r.IBKCSChannelAvailable = true
	if v10 {
		r.TemperatureMonitor, r.ChassisPower, r.SELLogging, r.Identification = bit(b[0], 3), bit(b[0], 2), bit(b[0], 1), bit(b[0], 0)
		r.VLANCapable, r.SOLSupported, r.OOBPrimaryLANChannelAvailable = bit(b[2], 5), bit(b[2], 4), bit(b[2], 3)
		r.IBKCSChannelAvailable = bit(b[2], 0)
	} else {
		r.IBSystemInterfaceChannelAvailable = bit(b[2], 0)
	}
	r.PowerManagement = bit(b[1], 0)
	r.OOBSecondaryLANChannelAvailable = bit(b[2], 2)
	r.SerialTMODEAvailable = bit(b[2], 1)
	return r, true
}

func refMandatory(d []byte) (*GetDCMICapabilitiesInfoMandatoryPlatformAttrsRsp, bool) {
	if len(d) < 7 {
		return nil, false
	}
	r := &GetDCMICapabilitiesInfoMandatoryPlatformAttrsRsp{}
	r.MajorVersion, r.MinorVersion, r.Revision = d[0], d[1], d[2]
	b := d[3:]
	// a 4-byte body is the v1.0 layout whatever the header says (known firmware quirk)
	v10 := len(b) == 4 || (d[0] == 1 && d[1] == 0)
	r.SELAutoRollover = bit(b[0], 7)
	if !v10 {
		r.SELFlushOnRollover, r.SELRecordLevelFlushOnRollover = bit(b[0], 6), bit(b[0], 5)
	}
	// the SEL entry count follows the byte order pinned by the repository's test vector
	// (see DESIGN.md section 7: outside the claim)
	r.SELMaxEntries = uint16(b[0]%16) + uint16(b[1])*256
	if v10 {
		r.AssetTagSupport, r.DHCPHostNameSupport, r.GUIDSupport = bit(b[2], 2), bit(b[2], 1), bit(b[2], 0)
		r.BaseboardTemperature, r.ProcessorsTemperature, r.InletTemperature = bit(b[3], 2), bit(b[3], 1), bit(b[3], 0)
	} else {
		r.AssetTagSupport, r.DHCPHostNameSupport, r.GUIDSupport = true, true, true
		r.BaseboardTemperature, r.ProcessorsTemperature, r.InletTemperature = true, true, true
		r.TemperatureSamplingFrequency = time.Duration(b[4]) * time.Second
	}
	return r, true
}

func refOptional(d []byte) (*GetDCMICapabilitiesInfoOptionalPlatformAttrsRsp, bool) {
	if len(d) < 5 {
		return nil, false
	}
	r := &GetDCMICapabilitiesInfoOptionalPlatformAttrsRsp{}
	r.MajorVersion, r.MinorVersion, r.Revision = d[0], d[1], d[2]
	r.PowerManagementSlaveAddress = ipmi.SlaveAddress(d[3] / 2)
	r.PowerManagementChannel = ipmi.Channel(d[4] / 16)
	r.PowerManagementRevision = d[4] % 16
	return r, true
}

func refAccess(d []byte) (*GetDCMICapabilitiesInfoManageabilityAccessAttrsRsp, bool) {
	if len(d) < 6 {
		return nil, false
	}
	r := &GetDCMICapabilitiesInfoManageabilityAccessAttrsRsp{}
	r.MajorVersion, r.MinorVersion, r.Revision = d[0], d[1], d[2]
	r.PrimaryLANOOBChannel, r.SecondaryLANOOBChannel, r.SerialOOBChannel = ipmi.Channel(d[3]), ipmi.Channel(d[4]), ipmi.Channel(d[5])
	return r, true
}

func refPeriod(b byte) time.Duration {
	n := int(b % 64)
	unit := []time.Duration{time.Second, time.Minute, time.Hour, 24 * time.Hour}[b/64]
	return time.Duration(n) * unit
}

func refPowerStats(d []byte) (*GetDCMICapabilitiesInfoEnhancedSystemPowerStatisticsAttrsRsp, bool) {
	if len(d) < 4 || len(d) < 4+int(d[3]) {
		return nil, false
	}
	r := &GetDCMICapabilitiesInfoEnhancedSystemPowerStatisticsAttrsRsp{}
	r.MajorVersion, r.MinorVersion, r.Revision = d[0], d[1], d[2]
	r.PowerRollingAvgTimePeriods = make([]time.Duration, int(d[3]))
	for i := range r.PowerRollingAvgTimePeriods {
		r.PowerRollingAvgTimePeriods[i] = refPeriod(d[4+i])
	}
	return r, true
}

func refSensorInfo(d []byte) (*GetDCMISensorInfoRsp, bool) {
	if len(d) < 2 || len(d) < 2+2*int(d[1]) {
		return nil, false
	}
	r := &GetDCMISensorInfoRsp{Instances: d[0]}
	for i := 0; i < int(d[1]); i++ {
		r.RecordIDs = append(r.RecordIDs, ipmi.RecordID(uint16(d[2+2*i])+uint16(d[3+2*i])*256))
	}
	return r, true
}

func refPowerReading(d []byte) (*GetPowerReadingRsp, bool) {
	if len(d) < 17 {
		return nil, false
	}
	w := func(i int) uint16 { return uint16(d[i]) + uint16(d[i+1])*256 }
	dw := func(i int) uint32 { return uint32(w(i)) + uint32(w(i+2))*65536 }
	return &GetPowerReadingRsp{Instantaneous: w(0), Min: w(2), Max: w(4), Avg: w(6),
		Timestamp: time.Unix(int64(dw(8)), 0), Period: time.Duration(dw(12)) * time.Millisecond, Active: bit(d[16], 6)}, true
}

func vRef(k int, d []byte) (vDecoder, bool) {
	switch k {
	case 0:
		w, ok := refSupported(d)
		return w, ok
	case 1:
		w, ok := refMandatory(d)
		return w, ok
	case 2:
		w, ok := refOptional(d)
		return w, ok
	case 3:
		w, ok := refAccess(d)
		return w, ok
	case 4:
		w, ok := refPowerStats(d)
		return w, ok
	case 5:
		w, ok := refSensorInfo(d)
		return w, ok
	case 6:
		w, ok := refPowerReading(d)
		return w, ok
	}
	panic("no such layer")
}

// C07 (pkg/dcmi): every response layer against its reference decoder, for DCMI versions
// 1.0 / 1.1 / 1.5 (and any other version bytes), every admissible length.
func VerifC07_Layer() {
	k := vChoice(vNumLayers)
	lens := [][]int{{5, 6, 7}, {6, 7, 8, 9}, {4, 5, 6}, {5, 6, 7}, {3, 4, 5, 6, 7}, {1, 2, 3, 4, 6, 7}, {16, 17, 18}}[k]
	n := lens[vChoice(len(lens))]
	d := vBytes(n)
	got := vLayer(k)
	err := got.DecodeFromBytes(d, gopacket.NilDecodeFeedback)
	want, ok := vRef(k, d)
	name := vLayerName(k)
	if ok {
		vAssert(err == nil, "c07-accepts-the-specification's-encoding/"+name)
		if err == nil {
			vAssert(vSameFields(got, want, "BaseLayer"), "c07-fields-equal-the-reference-decoding/"+name)
		}
		vReached("?accepted")
	} else {
		vAssert(err != nil, "c07-rejects-what-the-reference-rejects/"+name)
		vReached("?rejected")
	}
	vReached("end")
}

package dcmi

import (
	"context"
	"time"

	"github.com/gebn/bmc"
	"github.com/gebn/bmc/pkg/ipmi"

	"github.com/google/gopacket"
)

type vDecoder interface {
	DecodeFromBytes([]byte, gopacket.DecodeFeedback) error
}

const vNumLayers = 7

func vLayer(i int) vDecoder {
	switch i {
	case 0:
		return &GetDCMICapabilitiesInfoSupportedCapabilitiesRsp{}
	case 1:
		return &GetDCMICapabilitiesInfoMandatoryPlatformAttrsRsp{}
	case 2:
		return &GetDCMICapabilitiesInfoOptionalPlatformAttrsRsp{}
	case 3:
		return &GetDCMICapabilitiesInfoManageabilityAccessAttrsRsp{}
	case 4:
		return &GetDCMICapabilitiesInfoEnhancedSystemPowerStatisticsAttrsRsp{}
	case 5:
		return &GetDCMISensorInfoRsp{}
	case 6:
		return &GetPowerReadingRsp{}
	}
	panic("no such layer")
}

func vLayerName(k int) string {
	return []string{"SupportedCapabilitiesRsp", "MandatoryPlatformAttrsRsp", "OptionalPlatformAttrsRsp",
		"ManageabilityAccessAttrsRsp", "EnhancedSystemPowerStatisticsAttrsRsp", "GetDCMISensorInfoRsp", "GetPowerReadingRsp"}[k]
}

// C05 (pkg/dcmi layers): arbitrary byte string of length 0..N, cap == len.
func VerifC05_Layer() {
	k := vChoice(vNumLayers)
	l := vLayer(k)
	maxN := vParam("maxlen", 24)
	if k == 4 {
		// each supported rolling-average period byte forks four ways (unit switch): bound the count
		maxN = vParam("maxperiods", 4) + 3
	}
	n := vLen(0, maxN)
	err := l.DecodeFromBytes(vBytes(n), gopacket.NilDecodeFeedback)
	if err == nil {
		vReached("accepted")
	} else {
		vReached("rejected")
	}
	vReached("end")
}

// C17 (pkg/dcmi layers): reuse versus fresh, see harness/ipmi/c17.go.
func VerifC17_LayerReuse() {
	k := vChoice(vNumLayers)
	used, fresh := vLayer(k), vLayer(k)
	lens := []int{2, 3, 4, 5, 6, 7, 8, 9, 17, 18}
	if k == 4 {
		lens = []int{2, 3, 4, 5}
	}
	e := vBytes(lens[vChoice(len(lens))])
	used.DecodeFromBytes(e, gopacket.NilDecodeFeedback)
	l := vBytes(lens[vChoice(len(lens))])
	l2 := make([]byte, len(l))
	copy(l2, l)
	errU := used.DecodeFromBytes(l, gopacket.NilDecodeFeedback)
	errF := fresh.DecodeFromBytes(l2[:len(l):len(l)], gopacket.NilDecodeFeedback)
	vAssert((errU == nil) == (errF == nil), "c17-same-verdict-as-a-fresh-value")
	if errU == nil && errF == nil {
		vAssert(vSameFields(used, fresh, "BaseLayer"), "c17-same-field-values-as-a-fresh-value/"+vLayerName(k))
		vReached("?both-accepted")
	}
	vReached("end")
}

// ---- C16 (c): DCMI sensor-info enumeration ----

// vFakeSession implements bmc.Session (the embedded nil interface supplies the
// unexported method); only SendCommand is ever called by the code under test.
type vFakeSession struct {
	bmc.Session
	send func(c ipmi.Command) (ipmi.CompletionCode, error)
}

func (s *vFakeSession) SendCommand(ctx context.Context, c ipmi.Command) (ipmi.CompletionCode, error) {
	return s.send(c)
}

// refSensorBMC holds, per entity ID, a list of record IDs and serves them in pages.
type refSensorBMC struct {
	ids       map[ipmi.EntityID][]ipmi.RecordID
	failOn    map[ipmi.EntityID]bool
	page      int
	requests  []GetDCMISensorInfoReq
	startsOK  bool
	lastStart map[ipmi.EntityID]int
}

func (b *refSensorBMC) send(c ipmi.Command) (ipmi.CompletionCode, error) {
	cmd := c.(*GetDCMISensorInfoCmd)
	b.requests = append(b.requests, cmd.Req)
	e := cmd.Req.Entity
	if b.failOn[e] {
		return ipmi.CompletionCodeUnspecified, nil
	}
	all := b.ids[e]
	st := int(cmd.Req.InstanceStart)
	// InstanceStart is 1-based; each page must start right after the previous one
	if st != b.lastStart[e]+1 {
		b.startsOK = false
	}
	lo := st - 1
	if lo > len(all) {
		lo = len(all)
	}
	hi := lo + b.page
	if hi > len(all) {
		hi = len(all)
	}
	b.lastStart[e] = hi
	// encode and decode through the real response layer so that the bytes are what a BMC sends
	body := []byte{byte(len(all)), byte(hi - lo)}
	for _, id := range all[lo:hi] {
		body = append(body, byte(id), byte(id>>8))
	}
	if err := cmd.Rsp.DecodeFromBytes(body, gopacket.NilDecodeFeedback); err != nil {
		return 0, err
	}
	return ipmi.CompletionCodeNormal, nil
}

func vIDs(n int) []ipmi.RecordID {
	raw := vBytes(2 * n)
	ids := make([]ipmi.RecordID, n)
	for i := range ids {
		ids[i] = ipmi.RecordID(uint16(raw[2*i]) | uint16(raw[2*i+1])<<8)
	}
	return ids
}

func vSameIDs(a, b []ipmi.RecordID) bool {
	if len(a) != len(b) {
		return false
	}
	var d uint16
	for i := range a {
		d |= uint16(a[i] ^ b[i])
	}
	return d == 0
}

// C16 (c1): enumeration of one entity: any instance count T in 0..maxT with arbitrary
// record IDs, page size p in 1..8: the result is exactly the T IDs in order, the number of
// requests is at most ceil(T/p)+1, and page starts are 1, 1+p, 1+2p, ...
func VerifC16_EntityInstances() {
	t := vLen(0, vParam("maxinstances", 24))
	if vParam("maxinstances", 24) < 255 && vBool() {
		// the end of the 8-bit range, where a start index or a count can wrap
		t = []int{253, 254, 255}[vChoice(3)]
	}
	p := 1 + vChoice(8)
	ids := vIDs(t)
	b := &refSensorBMC{ids: map[ipmi.EntityID][]ipmi.RecordID{ipmi.EntityIDProcessor: ids}, page: p, startsOK: true, lastStart: map[ipmi.EntityID]int{}}
	s := &vFakeSession{send: b.send}
	cmd := &GetDCMISensorInfoCmd{Req: GetDCMISensorInfoReq{Type: ipmi.SensorTypeTemperature, Entity: ipmi.EntityIDProcessor}}
	got, err := getEntityInstances(context.Background(), s, cmd)
	vAssert(err == nil, "c16-enumeration-succeeds")
	vAssert(vSameIDs(got, ids), "c16-every-record-id-once-in-order")
	vAssert(len(b.requests) <= (t+p-1)/p+1, "c16-enumeration-terminates-within-ceil-T-over-p-plus-one-requests")
	vAssert(b.startsOK, "c16-each-page-starts-after-the-previous-one")
	vReached("end")
}

// C16 (c2): GetSensorInfo queries the three standard entity IDs and turns to the three
// DCMI-specific ones exactly when the standard ones yielded no record IDs or an error.
func VerifC16_SensorInfoFallback() {
	std := []ipmi.EntityID{ipmi.EntityIDAirInlet, ipmi.EntityIDProcessor, ipmi.EntityIDSystemBoard}
	alt := []ipmi.EntityID{ipmi.EntityIDDCMIAirInlet, ipmi.EntityIDDCMIProcessor, ipmi.EntityIDDCMISystemBoard}
	b := &refSensorBMC{ids: map[ipmi.EntityID][]ipmi.RecordID{}, failOn: map[ipmi.EntityID]bool{}, page: 1 + vChoice(2), startsOK: true, lastStart: map[ipmi.EntityID]int{}}
	stdTotal := 0
	stdFail := false
	for _, e := range std {
		n := vChoice(3)
		b.ids[e] = vIDs(n)
		stdTotal += n
		if vBool() {
			b.failOn[e] = true
			stdFail = true
		}
	}
	for _, e := range alt {
		b.ids[e] = vIDs(vChoice(2))
	}
	s := &vFakeSession{send: b.send}
	info, err := GetSensorInfo(context.Background(), s)
	usedAlt := false
	for _, r := range b.requests {
		for _, e := range alt {
			if r.Entity == e {
				usedAlt = true
			}
		}
	}
	// an error aborts the standard pass at the failing entity; IDs count only if the pass completed
	wantAlt := stdFail || stdTotal == 0
	vAssert(usedAlt == wantAlt, "c16-dcmi-entity-ids-queried-exactly-when-standard-ones-gave-nothing-or-failed")
	if !wantAlt {
		vAssert(err == nil, "c16-standard-ids-suffice")
		vAssert(vSameIDs(info.Inlet, b.ids[std[0]]) && vSameIDs(info.CPU, b.ids[std[1]]) && vSameIDs(info.Baseboard, b.ids[std[2]]), "c16-sensor-info-lists-the-standard-entities'-records")
		vReached("?standard")
	} else if err == nil {
		vAssert(vSameIDs(info.Inlet, b.ids[alt[0]]) && vSameIDs(info.CPU, b.ids[alt[1]]) && vSameIDs(info.Baseboard, b.ids[alt[2]]), "c16-sensor-info-lists-the-dcmi-entities'-records")
		vReached("?fallback")
	}
	vReached("end")
}

// ---- C20: rolling-average period bytes ----

func VerifC20_RollingAverage() {
	b := vByte()
	v := int(b & 0x3f)
	unit := b >> 6
	secs := []int{1, 60, 3600, 86400}[unit]
	vAssert(secondsMultiplier(unit) == secs, "c20-seconds-multiplier")
	// multipliers for every unit value, not only 0..3
	u := vByte()
	if u >= 3 {
		vAssert(secondsMultiplier(u) == 86400, "c20-seconds-multiplier-default-is-days")
	}
	d := rollingAvgPeriodDuration(b)
	vAssert(d == time.Duration(v*secs)*time.Second, "c20-period-byte-to-duration")
	vReached("end")
}

// rollingAvgPeriodByte for every whole number of seconds k below 64 days, by unit
// range (case split over the unit, k symbolic within the range).
func VerifC20_RollingAverageEncode() {
	unit := vParam("unit", -1)
	if unit < 0 {
		unit = vChoice(4)
	}
	var k uint32
	var want byte
	switch unit {
	case 0:
		k = vU32()
		vAssume(k < 60)
		want = byte(k)
	case 1:
		// case split over the whole minutes, the remaining seconds symbolic
		q := uint32(vPick(59))
		r := uint32(vByte())
		vAssume(r < 60)
		k = q*60 + r
		want = byte(q) | 0x40
	case 2:
		q := uint32(vPick(23))
		r := uint32(vU16())
		vAssume(r < 3600)
		if vParam("wholeminutes", 1) == 1 {
			vAssume(r%60 == 0)
		}
		k = q*3600 + r
		want = byte(q) | 0x80
	case 3:
		// days: whole hours only (the sub-hour remainder is outside this bound)
		days := uint32(vPick(63))
		if vParam("allq", 0) == 0 && vBool() {
			// beyond the 6-bit field: it saturates at 63 days, also where the day count
			// no longer fits a byte
			days = []uint32{64, 256, 300}[vChoice(3)]
		} else if vParam("allq", 0) == 1 && vBool() {
			days = []uint32{64, 65, 66, 255, 256, 257, 300, 1000, 49000}[vChoice(9)]
		}
		h := uint32(vByte())
		vAssume(h < 24)
		k = days*86400 + h*3600
		want = byte(days) | 0xc0
		if days > 63 {
			want = 0xff
		}
	}
	got := rollingAvgPeriodByte(time.Duration(k) * time.Second)
	vAssert(got == want, "c20-duration-to-period-byte-truncates-to-the-unit")
	vReached("end")
}

// vPick selects a value in 1..n: every value in the thorough tier, {1, middle, n} in the
// quick tier (each value costs one floating-point query of 10-20 s).
func vPick(n int) int {
	if vParam("allq", 0) == 1 {
		return 1 + vChoice(n)
	}
	return []int{1, (n + 1) / 2, n}[vChoice(3)]
}

package dcmi

import (
	"time"

	"github.com/gebn/bmc/pkg/ipmi"

	"github.com/google/gopacket"
)

func vBytesEq(a, b []byte) bool {
	if len(a) != len(b) {
		return false
	}
	var d byte
	for i := range a {
		d |= a[i] ^ b[i]
	}
	return d == 0
}

// refMsg builds the reference IPMI request message for a DCMI command: NetFn 2Ch (group
// extension), first data byte DCh (DCMI), then the command's request data.
func refDCMIMsg(cmd byte, data []byte) []byte {
	m := []byte{0x20, 0x2c << 2, 0, 0x81, 1 << 2, cmd, 0xdc}
	var c byte
	for _, x := range m[0:2] {
		c += x
	}
	m[2] = -c
	m = append(m, data...)
	c = 0
	for _, x := range m[3:] {
		c += x
	}
	return append(m, -c)
}

// C06 (DCMI requests): the three DCMI requests with arbitrary field values, serialised
// under the message layer exactly as the connection does, equal the reference encoding
// (DCMI 1.5 tables 6-2, 6-5, 6-15).
func VerifC06_Requests() {
	var cmd ipmi.Command
	var wantCmd byte
	var wantData []byte
	switch vChoice(3) {
	case 0:
		p := vByte()
		c := &getDCMICapabilitiesInfoCmd{Parameter: CapabilitiesParameter(p)}
		cmd, wantCmd, wantData = vCapCmd{c}, 0x01, []byte{p}
	case 1:
		st, e, inst, start := vByte(), vByte(), vByte(), vByte()
		c := &GetDCMISensorInfoCmd{Req: GetDCMISensorInfoReq{Type: ipmi.SensorType(st), Entity: ipmi.EntityID(e), Instance: ipmi.EntityInstance(inst), InstanceStart: start}}
		s := start
		if inst != 0 {
			s = 0
		}
		cmd, wantCmd, wantData = c, 0x07, []byte{st, e, inst, s}
	case 2:
		// mode 1 = system power statistics; mode 2 = enhanced statistics with a rolling-average period
		enhanced := vBool()
		c := &GetPowerReadingCmd{}
		if enhanced {
			c.Req.Mode = SystemPowerStatisticsModeEnhanced
			secs := vByte()
			vAssume(secs < 60)
			c.Req.Period = time.Duration(secs) * time.Second
			wantData = []byte{0x02, secs, 0x00}
		} else {
			c.Req.Mode = SystemPowerStatisticsModeNormal
			c.Req.Period = time.Duration(vU32()) * time.Second
			wantData = []byte{0x01, 0x00, 0x00}
		}
		cmd, wantCmd = c, 0x02
	}
	msg := &ipmi.Message{
		Operation:     *cmd.Operation(),
		RemoteAddress: ipmi.SlaveAddressBMC.Address(),
		RemoteLUN:     cmd.RemoteLUN(),
		LocalAddress:  ipmi.SoftwareIDRemoteConsole1.Address(),
		Sequence:      1,
	}
	buf := gopacket.NewSerializeBuffer()
	err := gopacket.SerializeLayers(buf, gopacket.SerializeOptions{FixLengths: true, ComputeChecksums: true}, msg, cmd.Request())
	vAssert(err == nil, "c06-dcmi-request-serialises")
	vAssert(vBytesEq(buf.Bytes(), refDCMIMsg(wantCmd, wantData)), "c06-dcmi-request-is-the-reference-encoding")
	vReached("end")
}

// vCapCmd adapts the unexported capabilities command (which has no Request method of
// its own on the embedded type) for this harness.
type vCapCmd struct{ c *getDCMICapabilitiesInfoCmd }

func (v vCapCmd) Name() string               { return "Get DCMI Capabilities Info" }
func (v vCapCmd) Operation() *ipmi.Operation { return v.c.Operation() }
func (v vCapCmd) RemoteLUN() ipmi.LUN        { return v.c.RemoteLUN() }
func (v vCapCmd) Request() gopacket.SerializableLayer {
	return (*GetDCMICapabilitiesInfoReq)(v.c)
}
func (v vCapCmd) Response() gopacket.DecodingLayer { return nil }

package transport

import (
	"context"
	"time"
)

const (
	vMs        = int64(time.Millisecond)
	vAllowance = 30 * vMs
)

func vBytesEq(a, b []byte) bool {
	if len(a) != len(b) {
		return false
	}
	var d byte
	for i := range a {
		d |= a[i] ^ b[i]
	}
	return d == 0
}

// C13 (the UDP transport itself): two consecutive Send calls on one transport, each
// with its own context deadline (40 ms or 150 ms after the start; the second may be the
// earlier one) against a peer that either drops the datagram or answers after an
// arbitrary delay of up to 100 ms (a 3-byte datagram, shorter than any RMCP header): every Send returns by its own context's deadline (plus the
// allowance), a lost reply gives an error, and a returned reply is the peer's datagram.
func VerifC13_TransportSend() {
	conn := vUDPConn()
	tr := &transport{conn: conn}
	vClockStart()
	for i := 0; i < 2; i++ {
		dl := []int64{40 * vMs, 150 * vMs}[vChoice(2)]
		now := vNowNs()
		if dl <= now {
			continue
		}
		ctx, cancel := context.WithDeadline(context.Background(), vInstant(dl))
		kind := vChoice(2)
		delay := int64(vU32()) * 1000
		vAssume(delay <= 100*vMs) // a reply that arrives after the deadline counts as lost
		payload := vBytes(3)
		vScriptReply(kind, delay, payload)
		vWatchdog(dl+3*vAllowance, "c13-transport-send-returns-by-its-context's-deadline")
		rsp, err := tr.Send(ctx, []byte{0x06, 0x00, 0xff, 0x07})
		vWatchdogStop()
		end := vNowNs()
		cancel()
		vAssert(end <= dl+vAllowance, "c13-transport-send-returns-by-its-context's-deadline")
		if kind == 0 {
			vAssert(err != nil, "c13-lost-reply-is-an-error")
		}
		if err == nil {
			vAssert(kind == 1 && vBytesEq(rsp, payload), "c13-returned-reply-is-the-peer's-datagram")
			vReached("?reply")
		} else {
			vReached("?error")
		}
	}
	vReached("end")
}

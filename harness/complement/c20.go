package complement

// C20: one's complement of an 8-bit value: non-negative values are themselves,
// values with the sign bit set are -(^b).
func VerifC20_Ones() {
	b := vByte()
	got := int(Ones(b))
	if b&0x80 == 0 {
		vAssert(got == int(b), "ones-nonneg")
		vReached("nonneg")
	} else {
		inv := int(^b) // magnitude
		vAssert(got == -inv, "ones-negative")
		vReached("neg")
	}
	vReached("end")
}

// C20: two's complement of the low `bits` bits, for every width used on the wire.
func VerifC20_Twos() {
	widths := []uint8{4, 8, 10, 16}
	w := widths[vChoice(len(widths))]
	hi, lo := vByte(), vByte()
	raw := int(hi)<<8 | int(lo)
	// the library documents that the value occupies the low `bits` bits
	vAssume(raw < 1<<w)
	got := int(Twos([2]byte{hi, lo}, w))
	want := raw
	if raw >= 1<<(w-1) {
		want = raw - 1<<w
	}
	vAssert(got == want, "twos-sign-extension")
	vReached("end")
}

package ipmi

// refAlgPayload is the 8-byte algorithm payload of 13.17: type, reserved x2, length 8,
// algorithm in bits 5:0, reserved x3; a wildcard has length 0 and no algorithm.
func refAlgPayload(typ byte, wildcard bool, alg byte) []byte {
	if wildcard {
		return []byte{typ, 0, 0, 0, 0, 0, 0, 0}
	}
	return []byte{typ, 0, 0, 8, alg, 0, 0, 0}
}

// C06 (RMCP+ setup payloads, layer level): for every value of their fields, the Open
// Session Request (13.17), RAKP Message 1 (13.20) and RAKP Message 3 (13.22) serialise to
// exactly the bytes of the specification's tables: fixed offsets, little-endian IDs,
// reserved bytes zero, the role byte's name-only-lookup bit and privilege nibble, the
// username length byte and bytes, and a key exchange authentication code only when the
// status is zero. A username longer than 16 bytes is an error.
func VerifC06_SetupPayloads() {
	buf := vBuffer()
	switch vChoice(3) {
	case 0:
		o := &OpenSessionReq{Tag: vByte(), MaxPrivilegeLevel: PrivilegeLevel(vByte() & 0x0f), SessionID: vU32()}
		o.AuthenticationPayload = AuthenticationPayload{Wildcard: vBool(), Algorithm: AuthenticationAlgorithm(vByte() & 0x3f)}
		o.IntegrityPayload = IntegrityPayload{Wildcard: vBool(), Algorithm: IntegrityAlgorithm(vByte() & 0x3f)}
		o.ConfidentialityPayload = ConfidentialityPayload{Wildcard: vBool(), Algorithm: ConfidentialityAlgorithm(vByte() & 0x3f)}
		err := o.SerializeTo(buf, vSerOpts)
		vAssert(err == nil, "c06-open-session-request-serialises")
		want := []byte{o.Tag, byte(o.MaxPrivilegeLevel), 0, 0, byte(o.SessionID), byte(o.SessionID >> 8), byte(o.SessionID >> 16), byte(o.SessionID >> 24)}
		want = append(want, refAlgPayload(0, o.AuthenticationPayload.Wildcard, byte(o.AuthenticationPayload.Algorithm))...)
		want = append(want, refAlgPayload(1, o.IntegrityPayload.Wildcard, byte(o.IntegrityPayload.Algorithm))...)
		want = append(want, refAlgPayload(2, o.ConfidentialityPayload.Wildcard, byte(o.ConfidentialityPayload.Algorithm))...)
		vAssert(vBytesEq(buf.Bytes(), want), "c06-open-session-request-is-the-specified-encoding")
	case 1:
		n := vLen(0, 18)
		name := vBytes(n)
		r := &RAKPMessage1{Tag: vByte(), ManagedSystemSessionID: vU32(), PrivilegeLevelLookup: vBool(),
			MaxPrivilegeLevel: PrivilegeLevel(vByte() & 0x0f), Username: string(name)}
		copy(r.RemoteConsoleRandom[:], vBytes(16))
		err := r.SerializeTo(buf, vSerOpts)
		if n > 16 {
			vAssert(err != nil, "c06-rakp1-username-longer-than-16-bytes-is-an-error")
			vReached("?long")
			return
		}
		vAssert(err == nil, "c06-rakp1-serialises")
		sid := r.ManagedSystemSessionID
		want := []byte{r.Tag, 0, 0, 0, byte(sid), byte(sid >> 8), byte(sid >> 16), byte(sid >> 24)}
		want = append(want, r.RemoteConsoleRandom[:]...)
		role := byte(r.MaxPrivilegeLevel)
		if !r.PrivilegeLevelLookup {
			role |= 0x10
		}
		want = append(want, role, 0, 0, byte(n))
		want = append(want, name...)
		vAssert(vBytesEq(buf.Bytes(), want), "c06-rakp1-is-the-specified-encoding")
	case 2:
		n := []int{0, 12, 16, 20, 32}[vChoice(5)]
		code := vBytes(n)
		r := &RAKPMessage3{Tag: vByte(), Status: StatusCode(vByte()), ManagedSystemSessionID: vU32(), AuthCode: code}
		err := r.SerializeTo(buf, vSerOpts)
		vAssert(err == nil, "c06-rakp3-serialises")
		sid := r.ManagedSystemSessionID
		want := []byte{r.Tag, byte(r.Status), 0, 0, byte(sid), byte(sid >> 8), byte(sid >> 16), byte(sid >> 24)}
		if r.Status == 0 {
			want = append(want, code...)
		}
		vAssert(vBytesEq(buf.Bytes(), want), "c06-rakp3-is-the-specified-encoding")
	}
	vReached("end")
}

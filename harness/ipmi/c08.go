package ipmi

import (
	"github.com/google/gopacket"
)

var vSerOpts = gopacket.SerializeOptions{FixLengths: true, ComputeChecksums: true}

func vBytesEq(a, b []byte) bool {
	if len(a) != len(b) {
		return false
	}
	// no short-circuit: one term, not one branch per byte
	var diff byte
	for i := range a {
		diff |= a[i] ^ b[i]
	}
	return diff == 0
}

// vDirtyBuffer is a serialize buffer that has been used before: the room in front of and
// behind the next layers holds old bytes (0xA5), as on a connection that re-uses one buffer.
func vDirtyBuffer() gopacket.SerializeBuffer {
	buf := gopacket.NewSerializeBuffer()
	b, _ := buf.PrependBytes(320)
	for i := range b {
		b[i] = 0xA5
	}
	b, _ = buf.AppendBytes(64)
	for i := range b {
		b[i] = 0xA5
	}
	buf.Clear()
	return buf
}

// vBuffer is a fresh or a used serialize buffer.
func vBuffer() gopacket.SerializeBuffer {
	if vBool() {
		return vDirtyBuffer()
	}
	return gopacket.NewSerializeBuffer()
}

func vCopy(b []byte) []byte {
	c := make([]byte, len(b))
	copy(c, b)
	return c[:len(b):len(b)]
}

// C08 (AES-128-CBC): serialising the confidentiality layer around any inner payload of
// length 0..L with any key, then decoding the produced bytes with a layer holding the
// same key, returns the original inner payload; the produced bytes are IV || E(K, IV,
// payload || 01..p || p) for the IV drawn from crypto/rand during the serialisation.
func VerifC08_AES() {
	var key [16]byte
	copy(key[:], vBytes(16))
	a, err := NewAES128CBC(key)
	vAssume(err == nil)
	n := vLen(0, vParam("maxpayload", 40))
	payload := vBytes(n)
	buf := gopacket.NewSerializeBuffer()
	if vParam("warm", 0) == 1 {
		// a buffer that has been used before has room in front
		buf.PrependBytes(256)
		buf.Clear()
	}
	r0 := vRandCalls()
	err = gopacket.SerializeLayers(buf, vSerOpts, a, gopacket.Payload(payload))
	vAssert(err == nil, "c08-aes-serialise-ok")
	vAssert(vRandCalls() == r0+1, "c08-aes-one-iv")
	wire := vCopy(buf.Bytes())
	p := (16 - (n+1)%16) % 16
	vAssert(len(wire) == 16+n+p+1, "c08-aes-wire-length")
	iv := wire[:16]
	vAssert(vBytesEq(iv, vRandBytes(r0+1)), "c08-aes-iv-from-rand")
	// reference: what a conforming peer computes
	pt := append([]byte{}, payload...)
	for i := 1; i <= p; i++ {
		pt = append(pt, byte(i))
	}
	pt = append(pt, byte(p))
	want := refAESCBC(true, key[:], iv, pt)
	vAssert(vBytesEq(wire[16:], want), "c08-aes-ciphertext-is-cbc-of-payload-and-pad")
	// decode with a second layer instance
	b, err := NewAES128CBC(key)
	vAssume(err == nil)
	err = b.DecodeFromBytes(wire, gopacket.NilDecodeFeedback)
	vAssert(err == nil, "c08-aes-decode-ok")
	if err == nil {
		vAssert(vBytesEq(b.LayerPayload(), payload), "c08-aes-roundtrip-payload")
	}
	vReached("end")
}

// C08 (IPMI message): any message value (6-bit sequence and NetFn, 2-bit LUNs, fields
// not applicable to the NetFn class zero) around an inner payload of 0..L bytes
// serialises to bytes that decode to an equal value and the same payload, and the decoded
// value serialises to the same bytes.
func VerifC08_Message() {
	cls := vChoice(3) // 0 plain, 1 group extension, 2 OEM
	response := vBool()
	var fn NetworkFunction
	switch cls {
	case 0:
		f := vByte() & 0x3e
		vAssume(f != 0x2c)
		vAssume(f != 0x2e)
		fn = NetworkFunction(f)
	case 1:
		fn = NetworkFunctionGroupReq
	case 2:
		fn = NetworkFunctionOEMReq
	}
	if response {
		fn |= 1
	}
	m := &Message{
		Operation:     Operation{Function: fn, Command: CommandNumber(vByte())},
		RemoteAddress: Address(vByte()),
		RemoteLUN:     LUN(vByte() & 3),
		LocalAddress:  Address(vByte()),
		LocalLUN:      LUN(vByte() & 3),
		Sequence:      vByte() & 0x3f,
	}
	if response {
		m.CompletionCode = CompletionCode(vByte())
	}
	switch cls {
	case 1:
		m.Body = BodyCode(vByte())
	case 2:
		m.Enterprise = 0
		e := vU32()
		vAssume(e < 1<<24)
		m.Operation.Enterprise = ianaEnterprise(e)
	}
	n := vLen(0, vParam("maxpayload", 24))
	payload := vBytes(n)
	buf := vBuffer()
	err := gopacket.SerializeLayers(buf, vSerOpts, m, gopacket.Payload(payload))
	vAssert(err == nil, "c08-message-serialises")
	wire := vCopy(buf.Bytes())
	var d Message
	err = d.DecodeFromBytes(wire, gopacket.NilDecodeFeedback)
	vAssert(err == nil, "c08-message-decodes-its-own-serialisation")
	if err != nil {
		return
	}
	vAssert(vSameFields(&d, m, "BaseLayer"), "c08-message-roundtrip-equal-value")
	vAssert(vBytesEq(d.LayerPayload(), payload), "c08-message-roundtrip-payload")
	buf2 := vDirtyBuffer()
	err = gopacket.SerializeLayers(buf2, vSerOpts, &d, gopacket.Payload(d.LayerPayload()))
	vAssert(err == nil && vBytesEq(buf2.Bytes(), wire), "c08-message-reserialises-to-the-same-bytes")
	vReached("end")
}

// C08 (v1.5 session wrapper), with and without an AuthCode.
func VerifC08_V1Session() {
	s := &V1Session{Sequence: vU32(), ID: vU32()}
	if vBool() {
		s.AuthType = AuthenticationType(vByte())
		vAssume(s.AuthType != AuthenticationTypeNone)
		copy(s.AuthCode[:], vBytes(16))
	}
	n := vLen(0, vParam("maxpayload", 24))
	payload := vBytes(n)
	buf := vBuffer()
	err := gopacket.SerializeLayers(buf, vSerOpts, s, gopacket.Payload(payload))
	vAssert(err == nil, "c08-v1session-serialises")
	wire := vCopy(buf.Bytes())
	var d V1Session
	err = d.DecodeFromBytes(wire, gopacket.NilDecodeFeedback)
	vAssert(err == nil, "c08-v1session-decodes-its-own-serialisation")
	if err != nil {
		return
	}
	vAssert(vSameFields(&d, s, "BaseLayer"), "c08-v1session-roundtrip-equal-value")
	vAssert(vBytesEq(d.LayerPayload(), payload), "c08-v1session-roundtrip-payload")
	buf2 := vDirtyBuffer()
	err = gopacket.SerializeLayers(buf2, vSerOpts, &d, gopacket.Payload(d.LayerPayload()))
	vAssert(err == nil && vBytesEq(buf2.Bytes(), wire), "c08-v1session-reserialises-to-the-same-bytes")
	vReached("end")
}

// C08 (v2.0 session wrapper): IPMI and OEM payload descriptors, unauthenticated and
// authenticated with each integrity algorithm (hash as an uninterpreted function), any key.
func VerifC08_V2Session() {
	s := &V2Session{Encrypted: vBool(), ID: vU32(), Sequence: vU32()}
	if vBool() {
		s.PayloadDescriptor = PayloadDescriptor{PayloadType: PayloadTypeOEM, Enterprise: ianaEnterprise(vU32()), PayloadID: vU16()}
	} else {
		pt := vByte() & 0x3f
		vAssume(PayloadType(pt) != PayloadTypeOEM)
		s.PayloadDescriptor = PayloadDescriptor{PayloadType: PayloadType(pt)}
	}
	// 0 unauthenticated; 1..3 HMAC-SHA1-96, HMAC-MD5-128, HMAC-SHA256-128; 4 the
	// authenticated flag with integrity algorithm None (a trailer with an empty AuthCode)
	alg := vChoice(5)
	var key []byte
	macLen := 0
	if alg == 4 {
		s.Authenticated = true
	} else if alg > 0 {
		s.Authenticated = true
		key = vBytes(20)
		s.IntegrityAlgorithm = vIntegrity(alg, key)
		macLen = []int{0, 12, 16, 16}[alg]
	}
	n := vLen(0, vParam("maxpayload", 20))
	payload := vBytes(n)
	buf := vBuffer()
	err := gopacket.SerializeLayers(buf, vSerOpts, s, gopacket.Payload(payload))
	vAssert(err == nil, "c08-v2session-serialises")
	wire := vCopy(buf.Bytes())
	hdr := 12
	if s.PayloadType == PayloadTypeOEM {
		hdr = 18
	}
	if alg == 4 {
		q := (4 - (hdr+n+2)%4) % 4
		vAssert(len(wire) == hdr+n+q+2, "c08-v2session-authenticated-length")
	} else if alg > 0 {
		q := (4 - (hdr+n+2)%4) % 4
		vAssert(len(wire) == hdr+n+q+2+macLen, "c08-v2session-authenticated-length")
		vAssert(vBytesEq(wire[len(wire)-macLen:], refHMAC(alg, key, wire[:len(wire)-macLen])[:macLen]), "c08-v2session-authcode-covers-header-to-next-header")
	} else {
		vAssert(len(wire) == hdr+n, "c08-v2session-unauthenticated-length")
	}
	d := V2Session{}
	if alg > 0 && alg < 4 {
		d.IntegrityAlgorithm = vIntegrity(alg, key)
	}
	err = d.DecodeFromBytes(wire, gopacket.NilDecodeFeedback)
	vAssert(err == nil, "c08-v2session-decodes-its-own-serialisation")
	if err != nil {
		return
	}
	vAssert(d.Encrypted == s.Encrypted && d.Authenticated == s.Authenticated && d.ID == s.ID && d.Sequence == s.Sequence &&
		d.PayloadDescriptor == s.PayloadDescriptor && int(d.Length) == n && d.Pad == s.Pad, "c08-v2session-roundtrip-equal-value")
	vAssert(vBytesEq(d.LayerPayload(), payload), "c08-v2session-roundtrip-payload")
	buf2 := vDirtyBuffer()
	err = gopacket.SerializeLayers(buf2, vSerOpts, &d, gopacket.Payload(d.LayerPayload()))
	vAssert(err == nil && vBytesEq(buf2.Bytes(), wire), "c08-v2session-reserialises-to-the-same-bytes")
	vReached("end")
}

// C08 (RAKP Message 1): every username length 0..16.
func VerifC08_RAKPMessage1() {
	r := &RAKPMessage1{Tag: vByte(), ManagedSystemSessionID: vU32(), PrivilegeLevelLookup: vBool(), MaxPrivilegeLevel: PrivilegeLevel(vByte() & 0xf)}
	copy(r.RemoteConsoleRandom[:], vBytes(16))
	r.Username = string(vBytes(vLen(0, 16)))
	buf := vBuffer()
	err := gopacket.SerializeLayers(buf, vSerOpts, r)
	vAssert(err == nil, "c08-rakp1-serialises")
	wire := vCopy(buf.Bytes())
	var d RAKPMessage1
	err = d.DecodeFromBytes(wire, gopacket.NilDecodeFeedback)
	vAssert(err == nil, "c08-rakp1-decodes-its-own-serialisation")
	if err != nil {
		return
	}
	vAssert(vSameFields(&d, r, "BaseLayer"), "c08-rakp1-roundtrip-equal-value")
	buf2 := vDirtyBuffer()
	err = gopacket.SerializeLayers(buf2, vSerOpts, &d)
	vAssert(err == nil && vBytesEq(buf2.Bytes(), wire), "c08-rakp1-reserialises-to-the-same-bytes")
	vReached("end")
}

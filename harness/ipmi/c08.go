package ipmi

import (
	"github.com/google/gopacket"
)

var vSerOpts = gopacket.SerializeOptions{FixLengths: true, ComputeChecksums: true}

func vBytesEq(a, b []byte) bool {
	if len(a) != len(b) {
		return false
	}
	// no short-circuit: one term, not one branch per byte
	var diff byte
	for i := range a {
		diff |= a[i] ^ b[i]
	}
	return diff == 0
}

func vCopy(b []byte) []byte {
	c := make([]byte, len(b))
	copy(c, b)
	return c[:len(b):len(b)]
}

// C08 (AES-128-CBC): serialising the confidentiality layer around any inner payload of
// length 0..L with any key, then decoding the produced bytes with a layer holding the
// same key, returns the original inner payload; the produced bytes are IV || E(K, IV,
// payload || 01..p || p) for the IV drawn from crypto/rand during the serialisation.
func VerifC08_AES() {
	var key [16]byte
	copy(key[:], vBytes(16))
	a, err := NewAES128CBC(key)
	vAssume(err == nil)
	n := vLen(0, vParam("maxpayload", 40))
	payload := vBytes(n)
	buf := gopacket.NewSerializeBuffer()
	if vParam("warm", 0) == 1 {
		// a buffer that has been used before has room in front
		buf.PrependBytes(256)
		buf.Clear()
	}
	r0 := vRandCalls()
	err = gopacket.SerializeLayers(buf, vSerOpts, a, gopacket.Payload(payload))
	vAssert(err == nil, "c08-aes-serialise-ok")
	vAssert(vRandCalls() == r0+1, "c08-aes-one-iv")
	wire := vCopy(buf.Bytes())
	p := (16 - (n+1)%16) % 16
	vAssert(len(wire) == 16+n+p+1, "c08-aes-wire-length")
	iv := wire[:16]
	vAssert(vBytesEq(iv, vRandBytes(r0+1)), "c08-aes-iv-from-rand")
	// reference: what a conforming peer computes
	pt := append([]byte{}, payload...)
	for i := 1; i <= p; i++ {
		pt = append(pt, byte(i))
	}
	pt = append(pt, byte(p))
	want := refAESCBC(true, key[:], iv, pt)
	vAssert(vBytesEq(wire[16:], want), "c08-aes-ciphertext-is-cbc-of-payload-and-pad")
	// decode with a second layer instance
	b, err := NewAES128CBC(key)
	vAssume(err == nil)
	err = b.DecodeFromBytes(wire, gopacket.NilDecodeFeedback)
	vAssert(err == nil, "c08-aes-decode-ok")
	if err == nil {
		vAssert(vBytesEq(b.LayerPayload(), payload), "c08-aes-roundtrip-payload")
	}
	vReached("end")
}

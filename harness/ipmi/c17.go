package ipmi

import (
	"github.com/google/gopacket"
)

// vConsumedPayload lists the layers whose LayerPayload() the library itself consumes
// (for the others, gopacket's embedded BaseLayer window is plumbing and is not compared).
func vConsumedPayload(i int) bool {
	switch i {
	case 0, 1, 2, 4, 10, 17, 21:
		return true
	}
	return false
}

// vLens lists, per layer, input lengths that bracket every length check and optional tail.
func vLens(k int) []int {
	switch k {
	case 0:
		return []int{7, 8, 9, 11}
	case 1:
		return []int{12, 13, 18, 20}
	case 2:
		if vTier() == 0 {
			return []int{30}
		}
		return []int{12, 34}
	case 3:
		return []int{10, 11, 26, 27}
	case 4:
		return []int{32}
	case 5:
		return []int{8, 40, 41, 60}
	case 6:
		return []int{8, 9, 20}
	case 7:
		return []int{1, 7, 8, 36}
	case 8:
		return []int{43, 44, 45, 46, 48}
	case 9:
		return []int{3, 6, 7, 18, 19}
	case 11:
		return []int{13, 14, 15}
	case 12:
		return []int{2, 3, 4}
	case 13, 17:
		return []int{1, 2, 3}
	case 14:
		return []int{7, 8, 9}
	case 15:
		return []int{0, 1, 2}
	case 16:
		return []int{2, 3, 4, 5}
	case 18:
		return []int{15, 16, 17}
	case 19:
		return []int{0, 1, 2, 17, 18}
	case 20:
		return []int{10, 11, 12, 13, 14, 15, 16}
	case 21:
		return []int{4, 5, 6}
	case 22:
		return []int{28, 29, 44}
	}
	return []int{1, 2, 3, 4, 6, 8, 11, 12, 14, 15, 16, 17, 18, 19}
}

// C17 (layer level): decoding a later input into a layer value that already decoded an
// arbitrary earlier input yields the same verdict and the same observable field values as
// decoding it into a fresh value.
func VerifC17_LayerReuse() {
	k := vParam("layer", -1)
	if k < 0 {
		k = vChoice(vNumLayers - 1) // the last entry (payload triple) has no state
	}
	used := vLayer(k)
	fresh := vLayer(k)
	if k == 2 {
		fresh.(*V2Session).IntegrityAlgorithm = used.(*V2Session).IntegrityAlgorithm
	}
	if k == 4 {
		fresh.(*AES128CBC).cipher = used.(*AES128CBC).cipher
	}
	lens := vLens(k)
	n1 := lens[vChoice(len(lens))]
	var e []byte
	if k == 4 {
		e = vAESInput(n1)
	} else {
		e = vBytes(n1)
	}
	if k == 2 && n1 >= 12 {
		// bound: the earlier packet of the authenticated session wrapper has an empty payload
		vAssume(e[10] == 0)
		vAssume(e[11] == 0)
	}
	used.DecodeFromBytes(e, gopacket.NilDecodeFeedback)
	n2 := lens[vChoice(len(lens))]
	var l []byte
	if k == 4 {
		l = vAESInput(n2)
	} else {
		l = vBytes(n2)
	}
	l2 := vCopy(l) // the AES layer decrypts in place
	errU := used.DecodeFromBytes(l, gopacket.NilDecodeFeedback)
	errF := fresh.DecodeFromBytes(l2, gopacket.NilDecodeFeedback)
	name := vLayerName(k)
	vAssert((errU == nil) == (errF == nil), "c17-same-verdict-as-a-fresh-value")
	if errU == nil && errF == nil {
		vAssert(vSameFields(used, fresh, "BaseLayer"), "c17-same-field-values-as-a-fresh-value/"+name)
		if vConsumedPayload(k) {
			up := used.(gopacket.DecodingLayer).LayerPayload()
			fp := fresh.(gopacket.DecodingLayer).LayerPayload()
			vAssert(vBytesEq(up, fp), "?c17-same-layer-payload-as-a-fresh-value")
		}
		vReached("?both-accepted")
	}
	vReached("end")
}

func vLayerName(k int) string {
	names := []string{"Message", "V2Session", "V2Session+integrity", "V1Session", "AES128CBC", "RAKPMessage2", "RAKPMessage4",
		"OpenSessionRsp", "FullSensorRecord", "GetSessionInfoRsp", "SessionSelector", "GetSDRRepositoryInfoRsp", "GetSensorReadingRsp",
		"ReserveSDRRepositoryRsp", "GetChannelAuthenticationCapabilitiesRsp", "SetSessionPrivilegeLevelRsp", "GetChassisStatusRsp",
		"GetSDRRsp", "GetSystemGUIDRsp", "GetChannelCipherSuitesRsp", "GetDeviceIDRsp", "SDR", "RAKPMessage1", "AlgorithmPayloads"}
	return names[k]
}

package ipmi

import (
	"time"

	"github.com/google/gopacket"
)

// Independent reference decoders for the response layers, written from the IPMI v2.0
// tables (bit numbering as in the specification: bit 7 is the most significant), used as
// oracles for C07. Each returns a value of the layer's own type so that the generic
// structural comparison can be used, and ok=false when the specification's encoding
// cannot be that short / is malformed.

func bit(b byte, n uint) bool { return (b>>n)&1 == 1 }

func le16(d []byte) uint16 { return uint16(d[0]) + uint16(d[1])*256 }
func le32(d []byte) uint32 {
	return uint32(d[0]) + uint32(d[1])*256 + uint32(d[2])*65536 + uint32(d[3])*16777216
}

// signed interprets the low `bits` bits of v as a two's-complement number.
func signed(v int, bits uint) int {
	if v >= 1<<(bits-1) {
		return v - 1<<bits
	}
	return v
}

func bcdVersion(b byte) uint8 {
	// "[7:4] minor (BCD), [3:0] major (BCD)"; the version number is major.minor, stored as major*10+minor
	return (b&0xf)*10 + b>>4
}

func refGetDeviceID(d []byte) (*GetDeviceIDRsp, bool) {
	// table 20-2; the 4 auxiliary firmware revision bytes are optional
	if len(d) < 11 {
		return nil, false
	}
	r := &GetDeviceIDRsp{
		ID:                               d[0],
		ProvidesSDRs:                     bit(d[1], 7),
		Revision:                         d[1] % 16,
		Available:                        !bit(d[2], 7),
		MajorFirmwareRevision:            d[2] % 128,
		MinorFirmwareRevision:            (d[3]/16)*10 + d[3]%16,
		MajorIPMIVersion:                 d[4] % 16,
		MinorIPMIVersion:                 d[4] / 16,
		SupportsChassisDevice:            bit(d[5], 7),
		SupportsBridgeDevice:             bit(d[5], 6),
		SupportsIPMBEventGeneratorDevice: bit(d[5], 5),
		SupportsIPMBEventReceiverDevice:  bit(d[5], 4),
		SupportsFRUInventoryDevice:       bit(d[5], 3),
		SupportsSELDevice:                bit(d[5], 2),
		SupportsSDRRepositoryDevice:      bit(d[5], 1),
		SupportsSensorDevice:             bit(d[5], 0),
		Manufacturer:                     ianaEnterprise(uint32(d[6]) + uint32(d[7])*256 + uint32(d[8])*65536),
		Product:                          le16(d[9:11]),
	}
	for i := 0; i < 4 && 11+i < len(d); i++ {
		r.AuxiliaryFirmwareRevision[i] = d[11+i]
	}
	return r, true
}

func refGetChassisStatus(d []byte) (*GetChassisStatusRsp, bool) {
	// table 28-3; byte 4 (front panel button capabilities) optional
	if len(d) < 3 {
		return nil, false
	}
	r := &GetChassisStatusRsp{
		PowerRestorePolicy:         PowerRestorePolicy((d[0] / 32) % 4),
		PowerControlFault:          bit(d[0], 4),
		PowerFault:                 bit(d[0], 3),
		Interlock:                  bit(d[0], 2),
		PowerOverload:              bit(d[0], 1),
		PoweredOn:                  bit(d[0], 0),
		PoweredOnByIPMI:            bit(d[1], 4),
		LastPowerDownFault:         bit(d[1], 3),
		LastPowerDownInterlock:     bit(d[1], 2),
		LastPowerDownOverload:      bit(d[1], 1),
		LastPowerDownSupplyFailure: bit(d[1], 0),
		ChassisIdentifyState:       ChassisIdentifyStateUnknown,
		CoolingFault:               bit(d[2], 3),
		DriveFault:                 bit(d[2], 2),
		Lockout:                    bit(d[2], 1),
		Intrusion:                  bit(d[2], 0),
	}
	if bit(d[2], 6) { // chassis identify command and state info supported
		r.ChassisIdentifyState = ChassisIdentifyState((d[2] / 16) % 4)
	}
	if len(d) >= 4 {
		r.StandbyButtonDisableAllowed = bit(d[3], 7)
		r.DiagnosticInterruptButtonDisableAllowed = bit(d[3], 6)
		r.ResetButtonDisableAllowed = bit(d[3], 5)
		r.PowerOffButtonDisableAllowed = bit(d[3], 4)
		r.StandbyButtonDisabled = bit(d[3], 3)
		r.DiagnosticInterruptButtonDisabled = bit(d[3], 2)
		r.ResetButtonDisabled = bit(d[3], 1)
		r.PowerOffButtonDisabled = bit(d[3], 0)
	}
	return r, true
}

func refGetChannelAuthCap(d []byte) (*GetChannelAuthenticationCapabilitiesRsp, bool) {
	// table 22-15
	if len(d) < 8 {
		return nil, false
	}
	return &GetChannelAuthenticationCapabilitiesRsp{
		Channel:                    Channel(d[0]),
		ExtendedCapabilities:       bit(d[1], 7),
		AuthenticationTypeOEM:      bit(d[1], 5),
		AuthenticationTypePassword: bit(d[1], 4),
		AuthenticationTypeMD5:      bit(d[1], 2),
		AuthenticationTypeMD2:      bit(d[1], 1),
		AuthenticationTypeNone:     bit(d[1], 0),
		TwoKeyLogin:                bit(d[2], 5),
		PerMessageAuthentication:   bit(d[2], 4),
		UserLevelAuthentication:    bit(d[2], 3),
		NonNullUsernamesEnabled:    bit(d[2], 2),
		NullUsernamesEnabled:       bit(d[2], 1),
		AnonymousLoginEnabled:      bit(d[2], 0),
		SupportsV2:                 bit(d[3], 1),
		SupportsV1:                 bit(d[3], 0),
		OEM:                        ianaEnterprise(uint32(d[4]) + uint32(d[5])*256 + uint32(d[6])*65536),
		OEMData:                    d[7],
	}, true
}

func refGetSessionInfo(d []byte) (*GetSessionInfoRsp, bool) {
	// table 22-25: 3 bytes always; bytes 4-6 if the session is active; channel-specific
	// LAN data (IP, MAC, port) after that
	if len(d) < 3 {
		return nil, false
	}
	r := &GetSessionInfoRsp{Handle: SessionHandle(d[0]), Max: d[1], Active: d[2]}
	if d[0] == 0 && len(d) == 3 {
		return r, true
	}
	if len(d) < 6 {
		return nil, false
	}
	r.UserID = d[3] % 64
	r.PrivilegeLevel = PrivilegeLevel(d[4] % 16)
	r.IsIPMIv2 = d[5]/16 == 1
	r.Channel = Channel(d[5] % 16)
	if len(d) >= 18 {
		r.IP = []byte{0, 0, 0, 0, 0, 0, 0, 0, 0, 0, 0xff, 0xff, d[6], d[7], d[8], d[9]}
		r.MAC = []byte{d[10], d[11], d[12], d[13], d[14], d[15]}
		r.Port = le16(d[16:18])
	}
	return r, true
}

func refSDRRepositoryInfo(d []byte) (*GetSDRRepositoryInfoRsp, bool) {
	// table 33-3
	if len(d) < 14 {
		return nil, false
	}
	return &GetSDRRepositoryInfoRsp{
		Version:                          bcdVersion(d[0]),
		Records:                          le16(d[1:3]),
		FreeSpace:                        le16(d[3:5]),
		LastAddition:                     time.Unix(int64(le32(d[5:9])), 0),
		LastErase:                        time.Unix(int64(le32(d[9:13])), 0),
		Overflow:                         bit(d[13], 7),
		SupportsModalUpdate:              bit(d[13], 6),
		SupportsNonModalUpdate:           bit(d[13], 5),
		SupportsDelete:                   bit(d[13], 3),
		SupportsPartialAdd:               bit(d[13], 2),
		SupportsReserve:                  bit(d[13], 1),
		SupportsGetAllocationInformation: bit(d[13], 0),
	}, true
}

func refSensorReading(d []byte) (*GetSensorReadingRsp, bool) {
	// table 35-15: reading, flags, then at least one state byte
	if len(d) < 3 {
		return nil, false
	}
	return &GetSensorReadingRsp{Reading: d[0], EventMessagesEnabled: bit(d[1], 7), ScanningEnabled: bit(d[1], 6), ReadingUnavailable: bit(d[1], 5)}, true
}

func refOpenSessionRsp(d []byte) (*OpenSessionRsp, bool) {
	// 13.18: on error only the tag, status, and (possibly) console session ID are
	// returned; a successful response is exactly 36 bytes
	r := &OpenSessionRsp{}
	switch {
	case len(d) == 1:
		r.Status = StatusCode(d[0])
	case len(d) < 7:
		return nil, false
	default:
		r.Tag, r.Status = d[0], StatusCode(d[1])
		r.RemoteConsoleSessionID = le32(d[3:7])
	}
	if r.Status != 0 {
		return r, true
	}
	if len(d) != 36 {
		return nil, false
	}
	r.MaxPrivilegeLevel = PrivilegeLevel(d[2])
	r.RemoteConsoleSessionID = le32(d[4:8])
	r.ManagedSystemSessionID = le32(d[8:12])
	// three 8-byte algorithm payloads: type 0/1/2, length byte 8 (0 = wildcard), algorithm in the low 6 bits
	if d[12] != 0 || d[20] != 1 || d[28] != 2 {
		return nil, false
	}
	r.AuthenticationPayload = AuthenticationPayload{Wildcard: d[15] == 0, Algorithm: AuthenticationAlgorithm(d[16] % 64)}
	r.IntegrityPayload = IntegrityPayload{Wildcard: d[23] == 0, Algorithm: IntegrityAlgorithm(d[24] % 64)}
	r.ConfidentialityPayload = ConfidentialityPayload{Wildcard: d[31] == 0, Algorithm: ConfidentialityAlgorithm(d[32] % 64)}
	if (r.AuthenticationPayload.Wildcard && r.AuthenticationPayload.Algorithm != 0) ||
		(r.IntegrityPayload.Wildcard && r.IntegrityPayload.Algorithm != 0) ||
		(r.ConfidentialityPayload.Wildcard && r.ConfidentialityPayload.Algorithm != 0) {
		return nil, false
	}
	return r, true
}

func refRAKP2(d []byte) (*RAKPMessage2, bool) {
	// 13.21
	if len(d) < 8 {
		return nil, false
	}
	r := &RAKPMessage2{Tag: d[0], Status: StatusCode(d[1]), RemoteConsoleSessionID: le32(d[4:8])}
	if r.Status != 0 {
		return r, true
	}
	if len(d) < 40 {
		return nil, false
	}
	copy(r.ManagedSystemRandom[:], d[8:24])
	copy(r.ManagedSystemGUID[:], d[24:40])
	r.AuthCode = d[40:]
	return r, true
}

func refRAKP4(d []byte) (*RAKPMessage4, bool) {
	// 13.23
	if len(d) < 8 {
		return nil, false
	}
	r := &RAKPMessage4{Tag: d[0], Status: StatusCode(d[1]), RemoteConsoleSessionID: le32(d[4:8])}
	if r.Status == 0 {
		r.ICV = d[8:]
	}
	return r, true
}

// refIDString decodes an ID string of c characters of the given type (43.15).
func refIDString(typ byte, c int, b []byte) (s string, used int, ok bool) {
	switch typ {
	case 0, 3: // "unicode" (treated as 8-bit by the library) / 8-bit ASCII + Latin 1
		if c == 1 || len(b) < c {
			return "", 0, false
		}
		return string(b[:c]), c, true
	case 1: // BCD plus
		used = (c + 1) / 2
		if len(b) < used {
			return "", 0, false
		}
		out := make([]byte, c)
		for i := 0; i < c; i++ {
			n := b[i/2] / 16
			if i%2 == 1 {
				n = b[i/2] % 16
			}
			out[i] = "0123456789 -.:,_"[n]
		}
		return string(out), used, true
	case 2: // 6-bit ASCII, packed
		used = (6*c + 7) / 8
		if len(b) < used {
			return "", 0, false
		}
		out := make([]byte, c)
		for i := 0; i < c; i++ {
			bitpos := 6 * i
			v := uint16(b[bitpos/8]) >> (uint(bitpos) % 8)
			if bitpos%8 > 2 {
				v |= uint16(b[bitpos/8+1]) << (8 - uint(bitpos)%8)
			}
			out[i] = byte(v%64) + 0x20
		}
		return string(out), used, true
	}
	return "", 0, false
}

func refFullSensorRecord(d []byte) (*FullSensorRecord, bool) {
	// table 43-1, from the record key (byte 6 of the record) on
	if len(d) < 43 {
		return nil, false
	}
	r := &FullSensorRecord{}
	r.OwnerAddress = Address(d[0])
	r.Channel = Channel(d[1] / 16)
	r.OwnerLUN = LUN(d[1] % 4)
	r.Number = d[2]
	r.Entity = EntityID(d[3])
	r.IsContainerEntity = bit(d[4], 7)
	r.Instance = EntityInstance(d[4] % 128)
	r.Ignore = bit(d[6], 7)
	r.SensorType = SensorType(d[7])
	r.OutputType = OutputType(d[8])
	r.AnalogDataFormat = AnalogDataFormat(d[15] / 64)
	r.RateUnit = RateUnit((d[15] / 8) % 8)
	r.IsPercentage = bit(d[15], 0)
	r.BaseUnit = SensorUnit(d[16])
	r.ModifierUnit = SensorUnit(d[17])
	r.Linearisation = Linearisation(d[18] % 128)
	r.M = int16(signed(int(d[19])+int(d[20]/64)*256, 10))
	r.Tolerance = d[20] % 64
	r.B = int16(signed(int(d[21])+int(d[22]/64)*256, 10))
	r.Accuracy = int16(signed(int(d[22]%64)+int(d[23]/16)*64, 10))
	r.AccuracyExp = (d[23] / 4) % 4
	r.Direction = SensorDirection(d[23] % 4)
	r.RExp = int8(signed(int(d[24]/16), 4))
	r.BExp = int8(signed(int(d[24]%16), 4))
	r.NominalReadingSpecified = bit(d[25], 0)
	r.NormalMaxSpecified = bit(d[25], 1)
	r.NormalMinSpecified = bit(d[25], 2)
	r.NominalReading = d[26]
	r.NormalMax = d[27]
	r.NormalMin = d[28]
	r.SensorMax = d[29]
	r.SensorMin = d[30]
	s, _, ok := refIDString(d[42]/64, int(d[42]%32), d[43:])
	if !ok {
		return nil, false
	}
	r.Identity = s
	return r, true
}

// vRef returns the reference decoding of d for layer k (same numbering as vLayer), or
// handled=false for layers that have no field-level reference here.
func vRef(k int, d []byte) (want vDecoder, ok bool, handled bool) {
	switch k {
	case 5:
		w, ok := refRAKP2(d)
		return w, ok, true
	case 6:
		w, ok := refRAKP4(d)
		return w, ok, true
	case 7:
		w, ok := refOpenSessionRsp(d)
		return w, ok, true
	case 8:
		w, ok := refFullSensorRecord(d)
		return w, ok, true
	case 9:
		w, ok := refGetSessionInfo(d)
		return w, ok, true
	case 11:
		w, ok := refSDRRepositoryInfo(d)
		return w, ok, true
	case 12:
		w, ok := refSensorReading(d)
		return w, ok, true
	case 13:
		if len(d) < 2 {
			return nil, false, true
		}
		return &ReserveSDRRepositoryRsp{ReservationID: ReservationID(le16(d))}, true, true
	case 14:
		w, ok := refGetChannelAuthCap(d)
		return w, ok, true
	case 15:
		if len(d) != 1 {
			return nil, false, true
		}
		return &SetSessionPrivilegeLevelRsp{PrivilegeLevel: PrivilegeLevel(d[0] % 16)}, true, true
	case 16:
		w, ok := refGetChassisStatus(d)
		return w, ok, true
	case 17:
		if len(d) < 2 {
			return nil, false, true
		}
		return &GetSDRRsp{Next: RecordID(le16(d))}, true, true
	case 18:
		if len(d) < 16 {
			return nil, false, true
		}
		g := &GetSystemGUIDRsp{}
		copy(g.GUID[:], d[:16])
		return g, true, true
	case 19:
		if len(d) < 1 {
			return nil, false, true
		}
		end := len(d)
		if end > 17 {
			end = 17
		}
		return &GetChannelCipherSuitesRsp{Channel: Channel(d[0]), CipherSuiteRecordsChunk: d[1:end]}, true, true
	case 20:
		w, ok := refGetDeviceID(d)
		return w, ok, true
	case 21:
		if len(d) < 5 {
			return nil, false, true
		}
		return &SDR{ID: RecordID(le16(d)), Version: bcdVersion(d[2]), Type: RecordType(d[3]), Length: d[4]}, true, true
	}
	return nil, false, false
}

// C07 (field level): for every response layer with a reference decoder, every byte
// string of every admissible length: the library accepts exactly what the reference
// accepts and, on acceptance, every field equals the reference's.
func VerifC07_Layer() {
	ks := []int{5, 6, 7, 8, 9, 11, 12, 13, 14, 15, 16, 17, 18, 19, 20, 21}
	k := vParam("layer", -1)
	if k < 0 {
		k = ks[vChoice(len(ks))]
	}
	lens := vLens(k)
	if k == 8 {
		// up to the longest ID string (31 8-bit characters)
		lens = append(lens, 52, 59, 74)
	}
	var n int
	if vParam("alllens", 0) == 1 {
		n = vLen(0, lens[len(lens)-1]+vParam("extra", 8))
	} else {
		n = lens[vChoice(len(lens))]
	}
	d := vBytes(n)
	got := vLayer(k)
	err := got.DecodeFromBytes(d, gopacket.NilDecodeFeedback)
	want, ok, _ := vRef(k, d)
	name := vLayerName(k)
	if ok {
		vAssert(err == nil, "c07-accepts-the-specification's-encoding/"+name)
		if err == nil {
			vAssert(vSameFields(got, want, "BaseLayer"), "c07-fields-equal-the-reference-decoding/"+name)
		}
		vReached("?accepted")
	} else {
		vAssert(err != nil, "c07-rejects-what-the-reference-rejects/"+name)
		vReached("?rejected")
	}
	vReached("end")
}

// C07 (rejections): an IPMI message with either checksum byte wrong, and a session
// wrapper whose length field exceeds the data, are rejected.
func VerifC07_Rejections() {
	switch vChoice(2) {
	case 0:
		n := vLen(8, vParam("maxmsg", 16))
		d := vBytes(n)
		var c1, c2 byte
		for _, x := range d[0:2] {
			c1 += x
		}
		for _, x := range d[3 : n-1] {
			c2 += x
		}
		bad1 := byte(c1+d[2]) != 0
		bad2 := byte(c2+d[n-1]) != 0
		var m Message
		err := m.DecodeFromBytes(d, gopacket.NilDecodeFeedback)
		if bad1 || bad2 {
			vAssert(err != nil, "c07-message-with-a-wrong-checksum-is-rejected")
			vReached("?bad-checksum")
		}
		if err == nil {
			vAssert(!bad1 && !bad2, "c07-accepted-message-has-valid-checksums")
			vAssert(m.RemoteAddress == Address(d[0]) && byte(m.Function) == d[1]/4 && byte(m.RemoteLUN) == d[1]%4 &&
				m.LocalAddress == Address(d[3]) && m.Sequence == d[4]/4 && byte(m.LocalLUN) == d[4]%4 && byte(m.Command) == d[5], "c07-message-header-fields")
			vReached("?message-accepted")
		}
	case 1:
		oem := vBool()
		hdr := 12
		if oem {
			hdr = 18 // explicit OEM payloads carry a 4-byte IANA number and a 2-byte payload ID
		}
		n := vLen(hdr, vParam("maxwrap", 20)+6)
		d := vBytes(n)
		vAssume(d[0] == 0x06)
		if oem {
			vAssume(d[1]&0x3f == 0x02)
		} else {
			vAssume(d[1]&0x3f != 0x02)
		}
		length := int(d[hdr-2]) + int(d[hdr-1])*256
		var s V2Session
		err := s.DecodeFromBytes(d, gopacket.NilDecodeFeedback)
		if length > n-hdr {
			vAssert(err != nil, "c07-session-wrapper-with-length-beyond-the-data-is-rejected")
			vReached("?too-long")
		}
		if err == nil {
			vAssert(length <= n-hdr, "c07-accepted-wrapper-length-fits")
			vAssert(s.ID == le32(d[hdr-10:hdr-6]) && s.Sequence == le32(d[hdr-6:hdr-2]) && int(s.Length) == length &&
				s.Encrypted == bit(d[1], 7) && s.Authenticated == bit(d[1], 6) && byte(s.PayloadType) == d[1]%64, "c07-session-wrapper-fields")
			if oem {
				vAssert(uint32(s.Enterprise) == le32(d[2:6]) && s.PayloadID == le16(d[6:8]), "c07-session-wrapper-oem-fields")
			}
			vAssert(vBytesEq(s.LayerPayload(), d[hdr:hdr+length]), "c07-session-wrapper-payload")
			vReached("?wrapper-accepted")
		}
	}
	vReached("end")
}

package ipmi

import (
	"crypto/hmac"
	"crypto/sha1"

	"github.com/google/gopacket"
)

type vDecoder interface {
	DecodeFromBytes([]byte, gopacket.DecodeFeedback) error
}

const vNumLayers = 24

var vAESKey [16]byte

// vAESInput returns an n-byte input for the AES-128-CBC layer. When n is a length the
// layer decrypts (a multiple of 16, at least 32), the bytes are IV || E(key, IV, pt) for an
// arbitrary plaintext pt: AES-CBC is a bijection for fixed key and IV, so this ranges over
// exactly the same inputs as arbitrary ciphertext bytes, but the counterexample stays
// meaningful when replayed with the real cipher ("a party that knows the session keys").
func vAESInput(n int) []byte {
	if n < 32 || n%16 != 0 {
		return vBytes(n)
	}
	iv := vBytes(16)
	pt := vBytes(n - 16)
	ct := refAESCBC(true, vAESKey[:], iv, pt)
	out := make([]byte, 0, n)
	out = append(out, iv...)
	out = append(out, ct...)
	return out[:n:n]
}

// vLayer returns a fresh instance of the i-th decodable layer of pkg/ipmi.
func vLayer(i int) vDecoder {
	switch i {
	case 0:
		return &Message{}
	case 1:
		return &V2Session{}
	case 2:
		// authenticated packets need an integrity algorithm (key arbitrary)
		return &V2Session{IntegrityAlgorithm: hmac.New(sha1.New, vBytes(20))}
	case 3:
		return &V1Session{}
	case 4:
		copy(vAESKey[:], vBytes(16))
		a, err := NewAES128CBC(vAESKey)
		vAssume(err == nil)
		return a
	case 5:
		return &RAKPMessage2{}
	case 6:
		return &RAKPMessage4{}
	case 7:
		return &OpenSessionRsp{}
	case 8:
		return &FullSensorRecord{}
	case 9:
		return &GetSessionInfoRsp{}
	case 10:
		return &SessionSelector{}
	case 11:
		return &GetSDRRepositoryInfoRsp{}
	case 12:
		return &GetSensorReadingRsp{}
	case 13:
		return &ReserveSDRRepositoryRsp{}
	case 14:
		return &GetChannelAuthenticationCapabilitiesRsp{}
	case 15:
		return &SetSessionPrivilegeLevelRsp{}
	case 16:
		return &GetChassisStatusRsp{}
	case 17:
		return &GetSDRRsp{}
	case 18:
		return &GetSystemGUIDRsp{}
	case 19:
		return &GetChannelCipherSuitesRsp{}
	case 20:
		return &GetDeviceIDRsp{}
	case 21:
		return &SDR{}
	case 22:
		return &RAKPMessage1{}
	case 23:
		return &vPayloads{}
	}
	panic("no such layer")
}

// vPayloads runs the three algorithm-payload deserialisers of the Open Session messages.
type vPayloads struct{}

func (*vPayloads) DecodeFromBytes(d []byte, df gopacket.DecodeFeedback) error {
	var a AuthenticationPayload
	var i IntegrityPayload
	var c ConfidentialityPayload
	rest, err := a.Deserialise(d, df)
	if err != nil {
		return err
	}
	rest, err = i.Deserialise(rest, df)
	if err != nil {
		return err
	}
	_, err = c.Deserialise(rest, df)
	return err
}

// C05 (layer level): decoding any byte string of length 0..N with any layer decoder of
// pkg/ipmi returns a value or an error; a panic, an out-of-range access (the input has
// cap == len, so every over-read is one) or an unbounded loop is a violation. The layer
// is then reused for a second arbitrary input.
func VerifC05_Layer() {
	k := vParam("layer", -1)
	if k < 0 {
		k = vChoice(vNumLayers)
	}
	l := vLayer(k)
	maxN := vParam("maxlen", 44)
	n := vLen(0, maxN)
	if k == 4 && n > 33 {
		// AES: the interesting lengths are multiples of 16 and their neighbours
		vAssume(n%16 <= 1 || n%16 == 15)
	}
	var data []byte
	if k == 4 {
		data = vAESInput(n)
	} else {
		data = vBytes(n)
	}
	err := l.DecodeFromBytes(data, gopacket.NilDecodeFeedback)
	if err == nil {
		vReached("accepted")
	} else {
		vReached("rejected")
	}
	if vParam("reuse", 0) == 1 {
		n2 := vParam("reuselen", n)
		var data2 []byte
		if k == 4 {
			data2 = vAESInput(n2)
		} else {
			data2 = vBytes(n2)
		}
		err2 := l.DecodeFromBytes(data2, gopacket.NilDecodeFeedback)
		_ = err2
	}
	vReached("end")
}

package ipmi

// C20: the three analog-format parsers agree with the mathematical unsigned /
// one's-complement / two's-complement value of the byte, for all 256 bytes; the parser
// table maps each format code to the right parser and rejects "no analog readings".
func VerifC20_AnalogParsers() {
	r := vByte()
	x := int(r)
	vAssert(int(parseAnalogDataFormatUnsigned(r)) == x, "c20-analog-unsigned")
	ones := x
	if x >= 128 {
		ones = -(255 - x) // one's complement: invert to get the magnitude
	}
	vAssert(int(parseAnalogDataFormatOnesComplement(r)) == ones, "c20-analog-ones-complement")
	twos := x
	if x >= 128 {
		twos = x - 256
	}
	vAssert(int(parseAnalogDataFormatTwosComplement(r)) == twos, "c20-analog-twos-complement")
	f := AnalogDataFormat(vByte() & 3)
	p, err := f.Parser()
	switch f {
	case AnalogDataFormatUnsigned:
		vAssert(err == nil && int(p.Parse(r)) == x, "c20-format-0-is-unsigned")
	case AnalogDataFormatOnesComplement:
		vAssert(err == nil && int(p.Parse(r)) == ones, "c20-format-1-is-ones-complement")
	case AnalogDataFormatTwosComplement:
		vAssert(err == nil && int(p.Parse(r)) == twos, "c20-format-2-is-twos-complement")
	default:
		vAssert(err != nil, "c20-format-3-has-no-parser")
	}
	vReached("end")
}

// C20: the IPMI checksum: the covered bytes plus the checksum sum to zero modulo 256,
// for every byte string of length 0..N.
func VerifC20_Checksum() {
	n := vLen(0, vParam("maxlen", 64))
	d := vBytes(n)
	c := checksum(d)
	t := c
	for _, b := range d {
		t += b
	}
	vAssert(t == 0, "c20-checksum-makes-the-sum-zero")
	vReached("end")
}

// C20: entity instances: exactly one of system-relative / device-relative holds for the
// 7-bit instance numbers, split at 0x60.
func VerifC20_EntityInstance() {
	i := EntityInstance(vByte() & 0x7f)
	sys, dev := i.IsSystemRelative(), i.IsDeviceRelative()
	vAssert(sys != dev, "c20-entity-instance-exactly-one-class")
	vAssert(sys == (i < 0x60), "c20-entity-instance-split-at-0x60")
	vReached("end")
}

var vBCDPlus = "0123456789 -.:,_"

// C20: ID-string decoders for c characters (0..31): BCD plus (two nibbles per byte,
// high nibble first), packed 6-bit ASCII (four characters per three bytes, LSB first,
// code + 0x20), 8-bit ASCII/Latin-1 (one byte per character); consumed length is
// ceil(c/2), ceil(6c/8), c.
func VerifC20_IDStrings() {
	enc := vChoice(3)
	c := vLen(0, vParam("maxchars", 31))
	var need int
	switch enc {
	case 0:
		need = (c + 1) / 2
	case 1:
		need = (6*c + 7) / 8
	case 2:
		need = c
	}
	slack := vChoice(3) // exactly sufficient, one spare byte, two spare bytes
	b := vBytes(need + slack)
	var s string
	var used int
	var err error
	switch enc {
	case 0:
		s, used, err = decodeBCDPlus(b, c)
	case 1:
		s, used, err = decodePacked6BitAscii(b, c)
	case 2:
		s, used, err = decode8BitAsciiLatin1(b, c)
	}
	if enc == 2 && c == 1 {
		// "at least two bytes of data must be present when this type is used ... a length of 1 is reserved"
		vAssert(err != nil, "c20-8bit-length-1-is-reserved")
		return
	}
	vAssert(err == nil, "c20-id-string-of-sufficient-length-decodes")
	if err != nil {
		return
	}
	vAssert(used == need, "c20-id-string-consumed-length")
	vAssert(len(s) == c, "c20-id-string-character-count")
	for i := 0; i < c && i < len(s); i++ {
		var want byte
		switch enc {
		case 0:
			nib := b[i/2] >> 4
			if i%2 == 1 {
				nib = b[i/2] & 0xf
			}
			want = vBCDPlus[nib]
		case 1:
			// character i occupies bits 6i..6i+5 of the byte stream taken LSB first
			bit := 6 * i
			v := uint16(b[bit/8]) >> (uint(bit) % 8)
			if bit%8 > 2 {
				v |= uint16(b[bit/8+1]) << (8 - uint(bit)%8)
			}
			want = byte(v&0x3f) + 0x20
		case 2:
			want = b[i]
		}
		vAssert(s[i] == want, "c20-id-string-character-value")
	}
	// one byte too few must be rejected
	if need > 0 && slack == 0 {
		var err2 error
		switch enc {
		case 0:
			_, _, err2 = decodeBCDPlus(b[:need-1], c)
		case 1:
			_, _, err2 = decodePacked6BitAscii(b[:need-1], c)
		case 2:
			_, _, err2 = decode8BitAsciiLatin1(b[:need-1], c)
		}
		vAssert(err2 != nil, "c20-id-string-one-byte-short-is-rejected")
	}
	vReached("end")
}

package ipmi

import (
	"crypto/hmac"
	"crypto/md5"
	"crypto/sha1"
	"crypto/sha256"
	"hash"

	"github.com/gebn/bmc/pkg/iana"
)

func ianaEnterprise(e uint32) iana.Enterprise { return iana.Enterprise(e) }

// vTrunc truncates a hash to n bytes (HMAC-SHA1-96, HMAC-SHA256-128).
type vTrunc struct {
	hash.Hash
	n int
}

func (t vTrunc) Sum(b []byte) []byte { return t.Hash.Sum(b)[:len(b)+t.n] }
func (t vTrunc) Size() int           { return t.n }

// vIntegrity builds the integrity algorithm 1 HMAC-SHA1-96, 2 HMAC-MD5-128, 3 HMAC-SHA256-128.
func vIntegrity(alg int, key []byte) hash.Hash {
	switch alg {
	case 1:
		return vTrunc{hmac.New(sha1.New, key), 12}
	case 2:
		return hmac.New(md5.New, key)
	case 3:
		return vTrunc{hmac.New(sha256.New, key), 16}
	}
	panic("no such integrity algorithm")
}

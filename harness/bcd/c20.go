package bcd

// C20: bcd.Decode agrees with the definition "tens digit * 10 + units digit" on all 256 bytes.
func VerifC20_BCD() {
	b := vByte()
	got := Decode(b)
	hi := int(b >> 4)
	lo := int(b & 0x0f)
	// mathematical definition over the integers, reduced to the 8-bit result type
	want := uint8((hi*10 + lo) & 0xff)
	vAssert(got == want, "bcd-decode-definition")
	if hi <= 9 && lo <= 9 {
		// valid BCD: the value is the two-digit decimal number, no wrap-around possible
		vAssert(int(got) == hi*10+lo, "bcd-decode-valid-digits")
		vAssert(got <= 99, "bcd-decode-range")
		vReached("valid")
	}
	vReached("end")
}

package bmc

import (
	"context"
	"time"

	"github.com/gebn/bmc/pkg/ipmi"
)

// vScripted answers the i-th datagram with the i-th prepared reply (no draws inside Send:
// in native replay two of these run in different goroutines).
type vScripted struct {
	vFakeTransport
	replies [][]byte
	dyn     func(req []byte) []byte // if set: computes each reply from the request (no draws)
}

func (t *vScripted) Send(ctx context.Context, b []byte) ([]byte, error) {
	i := len(t.sent)
	cp := make([]byte, len(b))
	copy(cp, b)
	t.sent = append(t.sent, cp)
	if t.dyn != nil {
		r := t.dyn(cp)
		if r == nil {
			return nil, vErrLost
		}
		return r[:len(r):len(r)], nil
	}
	if i >= len(t.replies) {
		return nil, vErrLost
	}
	r := make([]byte, len(t.replies[i]))
	copy(r, t.replies[i])
	return r[:len(r):len(r)], nil
}

// vC19Conn is one independent connection with a prepared workload.
type vC19Conn struct {
	t     *vScripted
	slt   *V2SessionlessTransport
	vs    *vSession
	run   func()
	code  ipmi.CompletionCode
	err   error
	want  int // datagrams the workload sends when run alone
	kind  int
	final ipmi.CompletionCode // the completion code the workload ends with when run alone
}

// observable is the part of what the workload did that is the same in every run alone:
// result, number and lengths of datagrams, and the datagram bytes that contain no
// console randomness (everything session-less; the Open Session Request of a handshake).
func (c *vC19Conn) observable() []byte {
	o := []byte{byte(c.code), 0, byte(len(c.t.sent))}
	if c.err != nil {
		o[1] = 1
	}
	for i, d := range c.t.sent {
		o = append(o, byte(len(d)))
		if c.kind == 0 || c.kind == 3 || (c.kind == 4 && i == 0) {
			o = append(o, d...)
		}
	}
	return o
}

// vC19Workload prepares, with all inputs drawn in advance, one of: a session-less
// command answered after a busy reply; an in-session command answered after a busy reply;
// an SDR repository walk; cipher suite discovery with the default preferences; a complete
// session handshake.
func vC19Workload(kind int) *vC19Conn {
	c := &vC19Conn{t: &vScripted{}, want: 2, kind: kind}
	busy := func(cc byte, body []byte) []byte { return append([]byte{cc}, body...) }
	switch kind {
	case 0:
		c.slt = vNewSessionless(&c.t.vFakeTransport)
		c.slt.V2Sessionless.transport = c.t
		c.slt.Transport = c.t
		// the final answer carries an arbitrary (possibly undocumented) completion code
		cc := vByte()
		vAssume(cc != 0xC0)
		vAssume(cc != 0xC3)
		c.final = ipmi.CompletionCode(cc)
		m1 := refBuildMsg(0x81, 0x07, 0, 0x20, 1, 0, 0x37, busy(0xC0, nil))
		m2 := refBuildMsg(0x81, 0x07, 0, 0x20, 1, 0, 0x37, busy(cc, vBytes(16)))
		c.t.replies = [][]byte{refSessionless(0, m1), refSessionless(0, m2)}
		cmd := &ipmi.GetSystemGUIDCmd{}
		c.run = func() { c.code, c.err = c.slt.SendCommand(context.Background(), cmd) }
	case 1:
		auth, integ := vSuite()
		c.vs = vNewSessionOn(c.t, &c.t.vFakeTransport, auth, integ)
		vAssume(c.vs.sess.AuthenticatedSequenceNumbers.Inbound < 0xffffff00)
		m1 := refBuildMsg(0x81, 0x07, 0, 0x20, 1, 0, 0x01, busy(0xC3, nil))
		m2 := refBuildMsg(0x81, 0x07, 0, 0x20, 1, 0, 0x01, busy(0x00, vBytes(11)))
		m3 := refBuildMsg(0x81, 0x07, 0, 0x20, 1, 0, 0x3C, busy(0x00, nil))
		c.t.replies = [][]byte{
			refSessionPacket(c.vs.sess.LocalID, 1, integ, c.vs.k1, c.vs.k2, vBytes(16), m1),
			refSessionPacket(c.vs.sess.LocalID, 2, integ, c.vs.k1, c.vs.k2, vBytes(16), m2),
			refSessionPacket(c.vs.sess.LocalID, 3, integ, c.vs.k1, c.vs.k2, vBytes(16), m3)}
		cmd := &ipmi.GetDeviceIDCmd{}
		c.want = 3
		c.run = func() {
			// a command, then the session is closed
			c.code, c.err = c.vs.sess.SendCommand(context.Background(), cmd)
			if c.err == nil {
				c.err = c.vs.sess.Close(context.Background())
			}
		}
	case 2:
		// SDR repository walk over a prepared reference repository
		repo := &refSDRRepo{records: vRecords(1, false), reservation: vU16(), lastAdd: vU32(), lastErase: vU32()}
		c.run = func() { _, c.err = RetrieveSDRRepository(context.Background(), repo) }
	case 3:
		// cipher suite discovery with the default preference list against a BMC that
		// advertises an arbitrary subset of it
		c.slt = vNewSessionless(&c.t.vFakeTransport)
		c.slt.V2Sessionless.transport = c.t
		c.slt.Transport = c.t
		var data []byte
		n := 0
		for i, p := range []ipmi.CipherSuite{ipmi.CipherSuite17, ipmi.CipherSuite3} {
			if vBool() {
				data = append(data, 0xC0, byte(i), byte(p.AuthenticationAlgorithm), 0x40|byte(p.IntegrityAlgorithm), 0x80|byte(p.ConfidentialityAlgorithm))
				n++
			}
		}
		bmc := &refSuiteBMC{data: data}
		c.t.dyn = bmc.handle
		c.want = 1
		c.run = func() {
			_, c.err = c.slt.determineCipherSuite(context.Background(), nil)
			if n == 0 && c.err == ErrNoSupportedCipherSuite {
				c.err = nil
			}
		}
	case 4:
		// a complete session handshake (explicit suite 3, real console randomness)
		c.slt = vNewSessionless(&c.t.vFakeTransport)
		c.slt.V2Sessionless.transport = c.t
		c.slt.Transport = c.t
		password := vBytes(4)
		bmc := &refBMC{password: password, sidC: vU32(), rC: vBytes(16), guid: vBytes(16), useProposal: true}
		c.t.dyn = bmc.handle
		c.want = 3
		c.run = func() {
			_, c.err = c.slt.NewV2Session(context.Background(), &V2SessionOpts{
				SessionOpts:  SessionOpts{Password: password, MaxPrivilegeLevel: ipmi.PrivilegeLevelUser},
				CipherSuites: []ipmi.CipherSuite{ipmi.CipherSuite3}})
		}
	case 5:
		// dialling with options and closing again: per-connection configuration must stay
		// per-connection (no datagram is sent)
		c.want = 0
		c.run = func() {
			var tr *V2SessionlessTransport
			tr, c.err = DialV2("127.0.0.1", WithTimeout(40*time.Millisecond))
			if c.err == nil {
				c.err = tr.Close()
			}
		}
	}
	return c
}

// C19 (footprint form): two independent connections each run a workload. In the engine
// the two workloads are executed one after the other and the sets of memory cells each
// reads and writes are compared: no cell written by one may be read or written by the
// other (disjoint footprints => the operations commute, every interleaving gives the
// sequential results, and there is no conflicting access, i.e. no data race). In native
// replay the two workloads run concurrently under the race detector; if it is silent (the
// shared state may be synchronised), each workload is run alone and after the other one,
// in separate processes, and what it did (results, datagrams) is compared.
func VerifC19_IndependentConnections() {
	ka, kb := vChoice(6), vChoice(6)
	a, b := vC19Workload(ka), vC19Workload(kb)
	vUseRealRand()
	conflict := vConflicts(a.run, b.run)
	vIsolation("a", a.observable())
	vIsolation("b", b.observable())
	vAssert(!conflict, "c19-independent-connections-touch-disjoint-state")
	vAssert(a.err == nil && b.err == nil, "c19-both-workloads-complete")
	if ka != 2 {
		vAssert(a.code == a.final && len(a.t.sent) == a.want, "c19-workload-a-as-when-run-alone")
	}
	if kb != 2 {
		vAssert(b.code == b.final && len(b.t.sent) == b.want, "c19-workload-b-as-when-run-alone")
	}
	vReached("end")
}

package bmc

import (
	"context"
	"errors"
	"net"
	"time"

	"github.com/gebn/bmc/pkg/ipmi"

	"github.com/cenkalti/backoff/v4"
)

// vFakeTransport stands in for the UDP socket: it records a copy of every datagram the
// library transmits and answers through a harness-supplied function.
type vFakeTransport struct {
	sent  [][]byte
	reply func(attempt int, req []byte) ([]byte, error)
	last  []byte // the previous reply as handed to the library
}

func (t *vFakeTransport) Address() net.Addr { return nil }
func (t *vFakeTransport) Close() error      { return nil }

func (t *vFakeTransport) Send(ctx context.Context, b []byte) ([]byte, error) {
	cp := make([]byte, len(b))
	copy(cp, b)
	t.sent = append(t.sent, cp)
	// the real transport returns a slice of its single receive buffer, so the bytes of
	// the previous reply do not survive the next exchange: overwrite them
	for i := range t.last {
		t.last[i] = 0xA5
	}
	r, err := t.reply(len(t.sent), cp)
	t.last = r
	return r, err
}

var vErrLost = errors.New("fake transport: no reply")

// vNewSessionless builds the connection object exactly as DialV2 does, on the fake
// transport, with the back-off policy replaced by a zero delay (delays are irrelevant
// to every property except C13).
func vNewSessionless(ft *vFakeTransport) *V2SessionlessTransport {
	s := newV2SessionlessTransport(ft, &dialConfig{timeout: time.Second})
	s.backoff = &backoff.ZeroBackOff{}
	return s
}

// vCommand returns the i-th command the library offers (pkg/ipmi), with arbitrary
// request field values.
const vNumIPMICommands = 13

func vCommand(i int) ipmi.Command {
	switch i {
	case 0:
		return &ipmi.GetDeviceIDCmd{}
	case 1:
		return &ipmi.GetChassisStatusCmd{}
	case 2:
		return &ipmi.GetSystemGUIDCmd{}
	case 3:
		return &ipmi.GetChannelAuthenticationCapabilitiesCmd{Req: ipmi.GetChannelAuthenticationCapabilitiesReq{
			ExtendedData: vBool(), Channel: ipmi.Channel(vByte() & 0xf), MaxPrivilegeLevel: ipmi.PrivilegeLevel(vByte() & 0xf)}}
	case 4:
		return &ipmi.SetSessionPrivilegeLevelCmd{Req: ipmi.SetSessionPrivilegeLevelReq{PrivilegeLevel: ipmi.PrivilegeLevel(vByte() & 0xf)}}
	case 5:
		return &ipmi.CloseSessionCmd{Req: ipmi.CloseSessionReq{ID: vU32()}}
	case 6:
		return &ipmi.ChassisControlCmd{Req: ipmi.ChassisControlReq{ChassisControl: ipmi.ChassisControl(vByte() & 0xf)}}
	case 7:
		return &ipmi.GetSDRRepositoryInfoCmd{}
	case 8:
		return &ipmi.ReserveSDRRepositoryCmd{}
	case 9:
		return &ipmi.GetSDRCmd{Req: ipmi.GetSDRReq{ReservationID: ipmi.ReservationID(vU16()), RecordID: ipmi.RecordID(vU16()), Offset: vByte(), Length: vByte()}}
	case 10:
		return &ipmi.GetSensorReadingCmd{Req: ipmi.GetSensorReadingReq{Number: vByte()}, OwnerLUN: ipmi.LUN(vByte() & 3)}
	case 11:
		return &ipmi.GetSessionInfoCmd{Req: ipmi.GetSessionInfoReq{Index: ipmi.SessionIndexCurrent}}
	case 12:
		return &ipmi.GetChannelCipherSuitesCmd{Req: ipmi.GetChannelCipherSuitesReq{Channel: ipmi.Channel(vByte() & 0xf), ListIndex: vByte() & 0x3f}}
	}
	panic("no such command")
}

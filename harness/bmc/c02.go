package bmc

import (
	"context"

	"github.com/gebn/bmc/pkg/ipmi"
)

// C02: every handshake reply is a correctly wrapped RMCP+ payload of the right type
// whose bytes are arbitrary (any length from a list that brackets every length check).
// Whenever a session is returned, the reference - computing from the bytes actually
// sent and received - must agree that:
//   - every reply echoed the request's tag and carried status 0,
//   - the Open Session Response was 36 bytes,
//   - the RAKP 2 AuthCode is HMAC_password(SID_M, SID_C, R_M, R_C, GUID_C, Role, ULen, UName),
//   - the RAKP 4 ICV is trunc(HMAC_SIK(R_M, SID_C, GUID_C)), SIK = HMAC_KG(R_M, R_C, Role, ULen, UName).
//
// Whenever the RAKP 2 reply is well-formed with status 0 and the right tag but a different
// AuthCode, the error is ErrIncorrectPassword.
func VerifC02_ArbitraryHandshake() {
	ft := &vFakeTransport{}
	s := vNewSessionless(ft)
	auth, integ := vSuite()
	hashAlg, macLen := refAuthHash(auth)
	icvLen := macLen
	if auth == 1 {
		icvLen = 12
	} else if auth == 3 {
		icvLen = 16
	}
	ulen := []int{0, 16}[vChoice(2)]
	username := vBytes(ulen)
	password := vBytes([]int{0, 20}[vChoice(2)])
	var kg []byte
	if vBool() {
		kg = vBytes(20)
	}
	priv := byte(vChoice(2) * 4) // 0 or 4 (concrete, see C01)
	lookup := vBool()
	var rsp [3][]byte
	var reqs [3][]byte
	step := 0
	lens := [3][]int{
		{0, 1, 7, 8, 35, 36, 37},
		{7, 8, 24, 39, 40, 40 + macLen - 1, 40 + macLen, 40 + macLen + 1},
		{7, 8, 8 + icvLen - 1, 8 + icvLen, 8 + icvLen + 1},
	}
	if vParam("alllens", 0) == 1 {
		for i := range lens {
			lens[i] = nil
			for n := 0; n <= 40+macLen+2; n++ {
				lens[i] = append(lens[i], n)
			}
		}
	}
	ft.reply = func(attempt int, req []byte) ([]byte, error) {
		vAssert(step < 3, "c02-at-most-three-exchanges")
		vAssert(len(req) > 16 && req[5] == byte(0x10+2*step), "c02-exchange-order")
		reqs[step] = req[16:]
		n := lens[step][vChoice(len(lens[step]))]
		p := vBytes(n)
		if step == 0 && n == 36 {
			// the BMC confirms the proposed algorithms (any other answer is C12's subject)
			vAssume(p[16] == byte(auth))
			vAssume(p[24] == byte(integ))
			vAssume(p[32] == 1)
		}
		rsp[step] = p
		step++
		return refSessionless(byte(0x11+2*(step-1)), p), nil
	}
	opts := &V2SessionOpts{
		SessionOpts:          SessionOpts{Username: string(username), Password: password, MaxPrivilegeLevel: ipmi.PrivilegeLevel(priv)},
		PrivilegeLevelLookup: lookup,
		KG:                   kg,
		CipherSuites: []ipmi.CipherSuite{{AuthenticationAlgorithm: ipmi.AuthenticationAlgorithm(auth),
			IntegrityAlgorithm: ipmi.IntegrityAlgorithm(integ), ConfidentialityAlgorithm: ipmi.ConfidentialityAlgorithmAESCBC128}},
	}
	sess, err := s.NewV2Session(context.Background(), opts)
	role := priv
	if !lookup {
		role |= 0x10
	}
	user := append([]byte{role, byte(ulen)}, username...)
	// expected RAKP 2 AuthCode, from what was actually exchanged (when there is enough of it)
	rakp2WellFormed := step >= 2 && len(rsp[0]) == 36 && len(rsp[1]) >= 40 && rsp[1][1] == 0 && rsp[1][0] == reqs[1][0] &&
		rsp[0][1] == 0 && rsp[0][0] == reqs[0][0]
	var want2 []byte
	if step >= 2 && len(rsp[0]) == 36 && len(rsp[1]) >= 40 {
		m := append([]byte{}, rsp[1][4:8]...) // SID_M as echoed in RAKP 2
		m = append(m, rsp[0][8:12]...)        // SID_C from the Open Session Response
		m = append(m, reqs[1][8:24]...)       // R_M as sent
		m = append(m, rsp[1][8:40]...)        // R_C, GUID_C
		m = append(m, user...)
		want2 = refHMAC(hashAlg, password, m)
	}
	if err == ErrIncorrectPassword {
		vReached("incorrect-password")
		vAssert(step == 2, "c02-incorrect-password-only-after-rakp2")
	}
	if rakp2WellFormed && !refBytesEq(rsp[1][40:], want2) {
		vAssert(err == ErrIncorrectPassword, "c02-wrong-rakp2-authcode-gives-incorrect-password")
		vAssert(step == 2, "c02-no-rakp3-after-a-wrong-rakp2-authcode")
	}
	if err == nil {
		vReached("session")
		vAssert(sess != nil && step == 3, "c02-session-after-three-exchanges")
		for i := 0; i < 3; i++ {
			vAssert(len(rsp[i]) >= 8 && rsp[i][0] == reqs[i][0], "c02-session-implies-tags-match")
			vAssert(rsp[i][1] == 0, "c02-session-implies-status-ok")
		}
		vAssert(len(rsp[0]) == 36, "c02-session-implies-36-byte-open-session-response")
		vAssert(len(rsp[1]) == 40+macLen, "c02-session-implies-full-rakp2")
		vAssert(refBytesEq(rsp[1][40:], want2), "c02-session-implies-rakp2-authcode-is-hmac-of-exchanged-values")
		key := password
		if len(kg) != 0 {
			key = kg
		}
		sm := append([]byte{}, reqs[1][8:24]...)
		sm = append(sm, rsp[1][8:24]...)
		sm = append(sm, user...)
		sik := refHMAC(hashAlg, key, sm)
		im := append([]byte{}, reqs[1][8:24]...)
		im = append(im, rsp[0][8:12]...)
		im = append(im, rsp[1][24:40]...)
		icv := refHMAC(hashAlg, sik, im)[:icvLen]
		vAssert(refBytesEq(rsp[2][8:], icv), "c02-session-implies-rakp4-icv-is-hmac-sik-of-exchanged-values")
		// and the RAKP 3 the console sent proves knowledge of the password to the BMC
		m3 := append([]byte{}, rsp[1][8:24]...)
		m3 = append(m3, rsp[1][4:8]...)
		m3 = append(m3, user...)
		vAssert(refBytesEq(reqs[2][8:], refHMAC(hashAlg, password, m3)), "c02-rakp3-authcode")
	} else {
		vReached("error")
		vAssert(sess == nil, "c02-error-means-no-session")
	}
	vReached("end")
}

// C02 (derived transcripts): the reference BMC runs a correct handshake except for ONE
// deviation, chosen from the property's catalogue:
//
//	0 the BMC holds a different password (one byte differs)
//	1 the BMC holds a different KG (one byte differs; only when KG is in use)
//	2 one byte of the authenticated fields of RAKP 2 is changed after the AuthCode was
//	  computed (console session ID echo, BMC random, GUID, AuthCode)
//	3 one byte of the BMC session ID in the Open Session Response is changed (the BMC keeps
//	  computing with its real ID)
//	4 one byte of the RAKP 4 ICV is changed
//	5 the status code of one of the three replies is non-zero
//	6 the tag of one of the three replies is changed
//	7 one of the three replies is truncated at an arbitrary length
//
// No session may be returned; deviation 0 must yield ErrIncorrectPassword.
func VerifC02_DerivedTranscript() {
	ft := &vFakeTransport{}
	s := vNewSessionless(ft)
	auth, integ := vSuite()
	username := vBytes([]int{0, 5}[vChoice(2)])
	password := vBytes(20)
	var kg []byte
	withKG := vBool()
	if withKG {
		kg = vBytes(20)
	}
	dev := vChoice(8)
	bmcPassword := append([]byte{}, password...)
	bmcKG := append([]byte{}, kg...)
	x := vByte()
	vAssume(x != 0)
	switch dev {
	case 0:
		bmcPassword[vChoice(20)] ^= x
	case 1:
		vAssume(withKG)
		bmcKG[vChoice(20)] ^= x
	}
	bmc := &refBMC{password: bmcPassword, kg: bmcKG, sidC: vU32(), rC: vBytes(16), guid: vBytes(16), useProposal: true}
	which := vChoice(3) // which reply a per-reply deviation applies to
	step := 0
	ft.reply = func(attempt int, req []byte) ([]byte, error) {
		r := bmc.handle(req)
		if dev != 3 {
			// (with deviation 3 the console addresses RAKP 1 to the altered session ID)
			vAssert(bmc.wellFormed, "c02-console-payload-well-formed")
		}
		p := r[16:]
		switch {
		case dev == 2 && step == 1:
			p[4+vChoice(len(p)-4)] ^= x
		case dev == 3 && step == 0:
			p[8+vChoice(4)] ^= x
		case dev == 4 && step == 2:
			p[8+vChoice(len(p)-8)] ^= x
		case dev == 5 && step == which:
			p[1] = x
		case dev == 6 && step == which:
			p[0] ^= x
		case dev == 7 && step == which:
			cut := vLen(0, len(p)-1)
			r = refSessionless(r[5], append([]byte{}, p[:cut]...))
		}
		step++
		return r, nil
	}
	sess, err := s.NewV2Session(context.Background(), &V2SessionOpts{
		SessionOpts: SessionOpts{Username: string(username), Password: password, MaxPrivilegeLevel: ipmi.PrivilegeLevelAdministrator},
		KG:          kg,
		CipherSuites: []ipmi.CipherSuite{{AuthenticationAlgorithm: ipmi.AuthenticationAlgorithm(auth),
			IntegrityAlgorithm: ipmi.IntegrityAlgorithm(integ), ConfidentialityAlgorithm: ipmi.ConfidentialityAlgorithmAESCBC128}},
	})
	vAssert(err != nil && sess == nil, "c02-no-session-from-a-deviating-transcript")
	if dev == 0 {
		vAssert(err == ErrIncorrectPassword, "c02-wrong-password-is-reported-as-such")
	}
	vReached("end")
}

// C02 (history): two session opens on one connection, same user name and suite. The BMC
// holds one password throughout; the first open is made with it and succeeds, the second
// is made with an arbitrary password of 20 or 24 bytes: a session may come back only if that password is the
// BMC's, and a different one must give ErrIncorrectPassword - nothing learnt or cached in
// the first handshake may stand in for the caller's password in the second.
func VerifC02_TwoHandshakes() {
	ft := &vFakeTransport{}
	s := vNewSessionless(ft)
	auth, integ := vSuite()
	username := vBytes([]int{0, 5}[vChoice(2)])
	bmcPassword := vBytes(20)
	var kg []byte
	if vBool() {
		kg = vBytes(20)
	}
	second := vBytes(20)
	if vBool() {
		// a longer password whose first 20 bytes may be the BMC's: it is a different key
		// unless the extra bytes are all zero (HMAC pads keys with zeros)
		extra := vBytes(4)
		vAssume(extra[0]|extra[1]|extra[2]|extra[3] != 0)
		second = append(second, extra...)
	}
	suites := []ipmi.CipherSuite{{AuthenticationAlgorithm: ipmi.AuthenticationAlgorithm(auth),
		IntegrityAlgorithm: ipmi.IntegrityAlgorithm(integ), ConfidentialityAlgorithm: ipmi.ConfidentialityAlgorithmAESCBC128}}
	for round := 0; round < 2; round++ {
		bmc := &refBMC{password: bmcPassword, kg: kg, sidC: vU32(), rC: vBytes(16), guid: vBytes(16), useProposal: true}
		ft.reply = func(attempt int, req []byte) ([]byte, error) {
			r := bmc.handle(req)
			if r == nil {
				return nil, vErrLost
			}
			return r, nil
		}
		password := bmcPassword
		if round == 1 {
			password = second
		}
		ctx, cancel := context.WithCancel(context.Background())
		sent := len(ft.sent)
		ft2 := ft.reply
		ft.reply = func(attempt int, req []byte) ([]byte, error) {
			if len(ft.sent)-sent >= 3 {
				cancel() // a refused RAKP 3 is not answered again
			}
			return ft2(attempt, req)
		}
		sess, err := s.NewV2Session(ctx, &V2SessionOpts{
			SessionOpts: SessionOpts{Username: string(username), Password: append([]byte{}, password...), MaxPrivilegeLevel: ipmi.PrivilegeLevelAdministrator},
			KG:          kg, CipherSuites: suites})
		if round == 0 {
			vAssert(err == nil && sess != nil, "c02-first-open-with-the-right-password-succeeds")
			continue
		}
		if len(second) == 20 && refBytesEq(second, bmcPassword) {
			vReached("?same-password")
		} else {
			vAssert(err != nil && sess == nil, "c02-no-session-with-a-password-the-bmc-does-not-hold")
			vAssert(err == ErrIncorrectPassword, "c02-wrong-password-is-reported-as-such")
			vReached("?different-password")
		}
	}
	vReached("end")
}

package bmc

import (
	"context"

	"github.com/gebn/bmc/pkg/ipmi"
)

// vC11Request draws an arbitrary request operation (any even NetFn except OEM, any
// command, any body code for the group-extension NetFn).
func vC11Request() *vSynthCmd {
	netFn := vByte() & 0x3e
	vAssume(netFn != 0x2e)
	op := ipmi.Operation{Function: ipmi.NetworkFunction(netFn), Command: ipmi.CommandNumber(vByte())}
	if netFn == 0x2c {
		op.Body = ipmi.BodyCode(vByte())
	}
	return &vSynthCmd{op: op}
}

// vC11Reply builds a well-formed, checksum-valid message with arbitrary NetFn (request
// or response, any class but OEM), command and - for the group-extension class - body code.
func vC11Reply() (msg []byte, netFn, cmd, body byte) {
	netFn = vByte() & 0x3f
	vAssume(netFn>>1 != 0x17) // OEM NetFn pair 0x2e/0x2f
	cmd = vByte()
	var data []byte
	if netFn&1 == 1 {
		// any completion code that is not a temporary one (those are retried, not returned)
		cc := vByte()
		vAssume(cc != 0xC0)
		vAssume(cc != 0xC3)
		data = append(data, cc)
	}
	if netFn>>1 == 0x16 { // group extension 0x2c/0x2d
		body = vByte()
		data = append(data, body)
	}
	return refBuildMsg(0x81, netFn, 0, 0x20, 1, 0, cmd, data), netFn, cmd, body
}

func vC11Check(c *vSynthCmd, err error, netFn, cmd, body byte) {
	if err == nil {
		vReached("?accepted")
		vAssert(netFn == byte(c.op.Function)|1, "c11-result-comes-from-a-response-with-the-request's-netfn")
		vAssert(cmd == byte(c.op.Command), "c11-result-comes-from-a-response-to-the-same-command")
		if byte(c.op.Function) == 0x2c {
			vAssert(body == byte(c.op.Body), "c11-result-comes-from-the-same-group-extension-body")
		}
	} else {
		vReached("?rejected")
	}
}

// C11 (session-less): the only reply to a command is a well-formed message for an
// arbitrary operation (e.g. the delayed duplicate of an earlier command's response).
func VerifC11_Sessionless() {
	ft := &vFakeTransport{}
	s := vNewSessionless(ft)
	ctx, cancel := context.WithCancel(context.Background())
	c := vC11Request()
	var netFn, cmd, body byte
	ft.reply = func(attempt int, req []byte) ([]byte, error) {
		cancel()
		var m []byte
		m, netFn, cmd, body = vC11Reply()
		return refSessionless(0x00, m), nil
	}
	_, err := s.SendCommand(ctx, c)
	vC11Check(c, err, netFn, cmd, body)
	vReached("end")
}

// C11 (in-session): the same with an authentic, encrypted reply.
func VerifC11_Session() {
	auth, integ := vSuite()
	vs := vNewSession(auth, integ)
	vAssume(vs.sess.AuthenticatedSequenceNumbers.Inbound != 0xffffffff)
	ctx, cancel := context.WithCancel(context.Background())
	c := vC11Request()
	var netFn, cmd, body byte
	vs.ft.reply = func(attempt int, req []byte) ([]byte, error) {
		cancel()
		var m []byte
		m, netFn, cmd, body = vC11Reply()
		return refSessionPacket(vs.sess.LocalID, vU32(), integ, vs.k1, vs.k2, vBytes(16), m), nil
	}
	_, err := vs.sess.SendCommand(ctx, c)
	vC11Check(c, err, netFn, cmd, body)
	vReached("end")
}

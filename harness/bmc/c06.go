package bmc

import (
	"context"

	"github.com/gebn/bmc/pkg/ipmi"
)

// refRequest is the specification's encoding of the i-th library command (see vCommand):
// NetFn, command number, responder LUN and request data bytes (IPMI v2.0 command tables
// 20-1, 20-2, 22-15, 22-18, 22-19, 22-20, 22-24, 28-2, 28-3, 33-9, 33-11, 33-12, 35-14).
// ok is false when the request is not encodable (Set Session Privilege Level "callback").
func refRequest(i int, c ipmi.Command) (netFn, cmd, lun byte, body []byte, ok bool) {
	ok = true
	switch x := c.(type) {
	case *ipmi.GetDeviceIDCmd:
		return 0x06, 0x01, 0, nil, true
	case *ipmi.GetChassisStatusCmd:
		return 0x00, 0x01, 0, nil, true
	case *ipmi.GetSystemGUIDCmd:
		return 0x06, 0x37, 0, nil, true
	case *ipmi.GetChannelAuthenticationCapabilitiesCmd:
		b0 := byte(x.Req.Channel) & 0x0f
		if x.Req.ExtendedData {
			b0 |= 0x80
		}
		return 0x06, 0x38, 0, []byte{b0, byte(x.Req.MaxPrivilegeLevel) & 0x0f}, true
	case *ipmi.SetSessionPrivilegeLevelCmd:
		return 0x06, 0x3b, 0, []byte{byte(x.Req.PrivilegeLevel) & 0x0f}, x.Req.PrivilegeLevel != 1
	case *ipmi.CloseSessionCmd:
		body = refPutLE32(x.Req.ID)
		if x.Req.ID == 0 {
			body = append(body, byte(x.Req.Handle))
		}
		return 0x06, 0x3c, 0, body, true
	case *ipmi.ChassisControlCmd:
		return 0x00, 0x02, 0, []byte{byte(x.Req.ChassisControl) & 0x0f}, true
	case *ipmi.GetSDRRepositoryInfoCmd:
		return 0x0a, 0x20, 0, nil, true
	case *ipmi.ReserveSDRRepositoryCmd:
		return 0x0a, 0x22, 0, nil, true
	case *ipmi.GetSDRCmd:
		return 0x0a, 0x23, 0, []byte{byte(x.Req.ReservationID), byte(x.Req.ReservationID >> 8), byte(x.Req.RecordID), byte(x.Req.RecordID >> 8), x.Req.Offset, x.Req.Length}, true
	case *ipmi.GetSensorReadingCmd:
		return 0x04, 0x2d, byte(x.OwnerLUN) & 3, []byte{x.Req.Number}, true
	case *ipmi.GetSessionInfoCmd:
		body = []byte{byte(x.Req.Index)}
		switch byte(x.Req.Index) {
		case 0xfe:
			body = append(body, byte(x.Req.Handle))
		case 0xff:
			body = append(body, refPutLE32(x.Req.ID)...)
		}
		return 0x06, 0x3d, 0, body, true
	case *ipmi.GetChannelCipherSuitesCmd:
		return 0x06, 0x54, 0, []byte{byte(x.Req.Channel) & 0x0f, byte(x.Req.PayloadType) & 0x3f, 0x80 | x.Req.ListIndex&0x3f}, true
	}
	panic("unknown command")
}

// C06 (session-less commands): every library command with arbitrary field values, sent
// outside a session, is byte-for-byte the reference encoding: RMCP 06 00 FF 07, null
// session wrapper with payload type IPMI and the right length, message 20 | NetFn/LUN |
// cks | 81 | seq 1 | cmd | data | cks.
func VerifC06_SessionlessCommand() {
	ft := &vFakeTransport{}
	s := vNewSessionless(ft)
	k := vChoice(vNumIPMICommands)
	cmd := vCommand(k)
	if gs, ok := cmd.(*ipmi.GetSessionInfoCmd); ok {
		gs.Req.Index = ipmi.SessionIndex(vByte())
		gs.Req.Handle = ipmi.SessionHandle(vByte())
		gs.Req.ID = vU32()
	}
	if cs, ok := cmd.(*ipmi.CloseSessionCmd); ok {
		cs.Req.Handle = ipmi.SessionHandle(vByte())
	}
	ft.reply = func(attempt int, req []byte) ([]byte, error) { return nil, vErrLost }
	ctx, cancel := context.WithCancel(context.Background())
	cancel()
	_, err := s.SendCommand(ctx, cmd)
	vAssert(err != nil, "c06-lost-reply-is-an-error")
	netFn, cmdNo, lun, body, ok := refRequest(k, cmd)
	if !ok {
		vAssert(len(ft.sent) == 0, "c06-unencodable-request-is-not-transmitted")
		vReached("?unencodable")
		return
	}
	vAssert(len(ft.sent) == 1, "c06-one-datagram")
	want := refSessionless(0x00, refBuildMsg(0x20, netFn, lun, 0x81, 1, 0, cmdNo, body))
	vAssert(refBytesEq(ft.sent[0], want), "c06-sessionless-command-is-the-reference-encoding")
	vReached("end")
}

// C06 / C03 (in-session commands, histories): a history of library commands with
// arbitrary field values on one session; every datagram is authenticated, encrypted,
// carries the next sequence number and a fresh IV, and decrypts to the reference encoding
// of that command.
func VerifC03_CommandHistory() {
	auth, integ := vSuite()
	vs := vNewSession(auth, integ)
	s0 := vs.sess.AuthenticatedSequenceNumbers.Inbound
	vAssume(s0 < 0xffffffff-8)
	n := vParam("commands", 2)
	vs.ft.reply = func(attempt int, req []byte) ([]byte, error) { return nil, vErrLost }
	sent := 0
	for i := 0; i < n; i++ {
		k := vChoice(vNumIPMICommands)
		cmd := vCommand(k)
		r0 := vRandCalls()
		_, err := vs.sess.SendCommand(context.Background(), cmd)
		vAssert(err != nil, "c03-lost-reply-is-an-error")
		netFn, cmdNo, lun, body, ok := refRequest(k, cmd)
		if !ok {
			vAssert(len(vs.ft.sent) == sent, "c06-unencodable-request-is-not-transmitted")
			continue
		}
		vAssert(len(vs.ft.sent) == sent+1, "c03-one-datagram-per-command")
		if len(vs.ft.sent) != sent+1 {
			return
		}
		vAssert(vRandCalls() == r0+1, "c03-one-fresh-iv-per-datagram")
		// an unencodable request still consumes a sequence number (it is taken before serialising)
		seq := vs.sess.AuthenticatedSequenceNumbers.Inbound
		msg := vCheckSessionDatagram(vs, vs.ft.sent[sent], seq, vRandBytes(r0+1))
		vAssert(seq > s0 && seq <= s0+uint32(i)+1, "c09-sequence-number-increases")
		vCheckRequestMsg(msg, netFn, cmdNo, lun, body)
		sent++
	}
	vReached("end")
}

// C06 (username limit): RAKP Message 1 with a username longer than 16 bytes is rejected
// with an error and nothing is transmitted for it.
func VerifC06_LongUsername() {
	ft := &vFakeTransport{}
	s := vNewSessionless(ft)
	n := vLen(17, vParam("maxuser", 20))
	username := vBytes(n)
	password := vBytes(4)
	bmc := &refBMC{password: password, sidC: vU32(), rC: vBytes(16), guid: vBytes(16), useProposal: true}
	rakp1 := 0
	ft.reply = func(attempt int, req []byte) ([]byte, error) {
		if len(req) > 5 && req[5] == 0x12 {
			rakp1++
			// decided at the moment of transmission: a RAKP Message 1 must never go out for this username
			vAssert(false, "?c06-no-rakp1-is-sent-for-an-overlong-username")
		}
		return bmc.handle(req), nil
	}
	sess, err := s.NewV2Session(context.Background(), &V2SessionOpts{
		SessionOpts:  SessionOpts{Username: string(username), Password: password, MaxPrivilegeLevel: ipmi.PrivilegeLevelUser},
		CipherSuites: []ipmi.CipherSuite{ipmi.CipherSuite3}})
	vAssert(err != nil && sess == nil, "c06-username-over-16-bytes-is-rejected")
	vAssert(rakp1 == 0, "c06-no-rakp1-is-sent-with-a-truncated-username")
	vReached("end")
}

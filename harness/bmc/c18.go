package bmc

import (
	"context"

	"github.com/gebn/bmc/pkg/ipmi"

	"github.com/google/gopacket"
)

// C18 (session lifecycle): one session open (succeeding, or failing before anything is sent,
// during cipher suite discovery, because the BMC holds
// another password, or because a handshake reply is lost) followed, when it succeeded, by
// Close with any outcome (normal, refused with a completion code, reply lost): open
// attempts +1, open failures +1 iff the open failed, and the open-sessions gauge is 1
// between a successful open and the close and 0 afterwards, whatever the close outcome.
func VerifC18_SessionLifecycle() {
	ft := &vFakeTransport{}
	s := vNewSessionless(ft)
	password := vBytes(8)
	bmcPassword := append([]byte{}, password...)
	// 0 conforming BMC, 1 wrong password, 2 a handshake reply is lost, 3 a suite the BMC
	// confirms but the library cannot use, 4 a suite with None (refused before anything is
	// sent), 5 two acceptable suites of which the BMC advertises none (discovery fails)
	mode := vChoice(6)
	suite := ipmi.CipherSuite3
	if mode == 4 {
		suite.IntegrityAlgorithm = ipmi.IntegrityAlgorithmNone
	}
	noSuites := &refSuiteBMC{}
	if mode == 3 {
		if vBool() {
			suite.IntegrityAlgorithm = ipmi.IntegrityAlgorithm(3) // MD5-128 (not implemented by the library)
		} else {
			suite.ConfidentialityAlgorithm = ipmi.ConfidentialityAlgorithm(2) // xRC4-128
		}
	}
	suites := []ipmi.CipherSuite{suite}
	if mode == 5 {
		suites = []ipmi.CipherSuite{ipmi.CipherSuite17, ipmi.CipherSuite3}
	}
	if mode == 1 {
		x := vByte()
		vAssume(x != 0)
		bmcPassword[0] ^= x
	}
	loseAt := vChoice(3)
	bmc := &refBMC{password: bmcPassword, sidC: vU32(), rC: vBytes(16), guid: vBytes(16), useProposal: true}
	ctx, cancel := context.WithCancel(context.Background())
	step := 0
	var vs *vSession
	closeOutcome := 0
	ft.reply = func(attempt int, req []byte) ([]byte, error) {
		if vs != nil {
			// in session: the Close Session command
			switch closeOutcome {
			case 1:
				return nil, vErrLost
			case 2:
				m := refBuildMsg(0x81, 0x07, 0, 0x20, 1, 0, 0x3c, []byte{0x87}) // invalid session ID
				return refSessionPacket(bmc.sidM, 1, bmc.rspInteg, bmc.k1, bmc.k2, vBytes(16), m), nil
			}
			m := refBuildMsg(0x81, 0x07, 0, 0x20, 1, 0, 0x3c, []byte{0x00})
			return refSessionPacket(bmc.sidM, 1, bmc.rspInteg, bmc.k1, bmc.k2, vBytes(16), m), nil
		}
		if mode == 2 && step == loseAt {
			cancel()
			return nil, vErrLost
		}
		if mode == 5 && len(req) > 5 && req[5] == 0x00 {
			return noSuites.handle(req), nil // Get Channel Cipher Suites: an empty list
		}
		step++
		return bmc.handle(req), nil
	}
	sess, err := s.NewV2Session(ctx, &V2SessionOpts{SessionOpts: SessionOpts{Password: password, MaxPrivilegeLevel: ipmi.PrivilegeLevelUser},
		CipherSuites: suites})
	vAssert((err == nil) == (mode == 0), "c18-open-succeeds-exactly-against-the-conforming-bmc")
	vAssert(vMetric("bmc_session_open_attempts_total") == 1, "c18-session-open-attempts-plus-one")
	failed := 0
	if err != nil {
		failed = 1
	}
	vAssert(vMetric("bmc_session_open_failures_total") == failed, "c18-session-open-failures-iff-error")
	vAssert(vMetric("bmc_sessions_open") == 1-failed, "c18-sessions-open-gauge-after-open")
	if err != nil {
		vReached("?open-failed")
		return
	}
	vs = &vSession{ft: ft, sess: sess}
	closeOutcome = vChoice(3)
	cerr := sess.Close(context.Background())
	vAssert((cerr == nil) == (closeOutcome == 0), "c18-close-reports-its-outcome")
	vAssert(vMetric("bmc_sessions_open") == 0, "c18-sessions-open-gauge-returns-to-zero-whatever-the-close-outcome")
	vAssert(vMetricL("bmc_command_attempts_total", "Close Session") == 1, "c18-close-is-one-command-attempt")
	cf := 0
	if closeOutcome == 1 {
		cf = 1 // only an error from SendCommand counts as a command failure, a non-normal code does not
	}
	vAssert(vMetricL("bmc_command_failures_total", "Close Session") == cf, "c18-close-command-failure-iff-sendcommand-error")
	vReached("end")
}

// C18 (connection lifecycle): DialV2 to a resolvable loopback address or to an
// unresolvable one, then Close: connection open attempts +1, failures iff the dial failed,
// and the open-connections gauge equals opens minus closes.
func VerifC18_Dial() {
	addr := "127.0.0.1"
	bad := vBool()
	if bad {
		addr = "no such host.invalid:port"
	}
	t, err := DialV2(addr)
	vAssert((err != nil) == bad, "c18-dial-fails-exactly-for-the-unresolvable-address")
	vAssert(vMetric("bmc_connection_open_attempts_total") == 1, "c18-connection-open-attempts-plus-one")
	f := 0
	if err != nil {
		f = 1
	}
	vAssert(vMetric("bmc_connection_open_failures_total") == f, "c18-connection-open-failures-iff-error")
	vAssert(vMetric("bmc_connections_open") == 1-f, "c18-connections-open-gauge-after-dial")
	if err == nil {
		t.Close()
		vAssert(vMetric("bmc_connections_open") == 0, "c18-connections-open-gauge-returns-to-zero")
		vReached("?closed")
	}
	vReached("end")
}

// vNamedCmd is a command whose Operation is shared with other commands of another name
// (as the DCMI capabilities variants share theirs).
type vNamedCmd struct {
	op   *ipmi.Operation
	name string
}

func (c *vNamedCmd) Name() string                        { return c.name }
func (c *vNamedCmd) Operation() *ipmi.Operation          { return c.op }
func (c *vNamedCmd) RemoteLUN() ipmi.LUN                 { return ipmi.LUNBMC }
func (c *vNamedCmd) Request() gopacket.SerializableLayer { return gopacket.Payload(nil) }
func (c *vNamedCmd) Response() gopacket.DecodingLayer    { return nil }

// C18 (per-name accounting across a history): two commands with different names that share
// one Operation value are sent one after the other, each succeeding or failing (reply lost
// until the context ends); attempts and failures are counted under each command's own name.
func VerifC18_TwoNames() {
	ft := &vFakeTransport{}
	s := vNewSessionless(ft)
	op := &ipmi.Operation{Function: ipmi.NetworkFunctionAppReq, Command: 0x01}
	cmds := []*vNamedCmd{{op: op, name: "first name"}, {op: op, name: "second name"}}
	fails := [2]bool{vBool(), vBool()}
	for i, c := range cmds {
		ctx, cancel := context.WithCancel(context.Background())
		fail := fails[i]
		ft.reply = func(attempt int, req []byte) ([]byte, error) {
			if fail {
				cancel()
				return nil, vErrLost
			}
			return refSessionless(0x00, refBuildMsg(0x81, 0x07, 0, 0x20, 1, 0, 0x01, []byte{0x00})), nil
		}
		_, err := s.SendCommand(ctx, c)
		vAssert((err != nil) == fail, "c18-command-outcome")
		cancel()
	}
	for i, c := range cmds {
		vAssert(vMetricL("bmc_command_attempts_total", c.name) == 1, "c18-attempts-under-the-command's-own-name")
		f := 0
		if fails[i] {
			f = 1
		}
		vAssert(vMetricL("bmc_command_failures_total", c.name) == f, "c18-failures-under-the-command's-own-name")
	}
	vReached("end")
}

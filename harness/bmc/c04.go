package bmc

import (
	"context"

	"github.com/gebn/bmc/pkg/ipmi"
)

// C04 mode A: the reply to an in-session command is an arbitrary byte string.
//   - if its authenticated flag is clear it must never complete the command;
//   - whenever the command completes, the datagram's trailing bytes are the session's
//     keyed hash (under K1) of everything from the auth-type byte up to them.
func VerifC04_ArbitraryReply() {
	auth, integ := vSuite()
	vs := vNewSession(auth, integ)
	vAssume(vs.sess.AuthenticatedSequenceNumbers.Inbound != 0xffffffff)
	cmd := &vSynthCmd{op: ipmi.OperationGetDeviceIDReq}
	ctx, cancel := context.WithCancel(context.Background())
	// quick: the short lengths (every header truncation) plus the shortest length at
	// which a reply can be accepted (16 header + 16 IV + 16 block + 2 + 12/16 AuthCode);
	// thorough: every length up to maxlen.
	var n int
	if vParam("onlylen", -1) >= 0 {
		n = vParam("onlylen", -1)
	} else if vParam("alllens", 0) == 1 {
		n = vLen(0, vParam("maxlen", 70))
	} else {
		lens := []int{0, 4, 5, 15, 16, 17, 33, 62}
		n = lens[vChoice(len(lens))]
	}
	var r []byte
	vs.ft.reply = func(attempt int, req []byte) ([]byte, error) {
		cancel() // a single attempt: an unacceptable reply ends the call with the context's error
		r = vBytes(n)
		// the library decrypts the receive buffer in place: hand it a copy
		cp := make([]byte, n)
		copy(cp, r)
		return cp[:n:n], nil
	}
	_, err := vs.sess.SendCommand(ctx, cmd)
	if err == nil {
		vReached("?accepted")
		alg, macLen := refIntegrityHash(integ)
		vAssert(len(r) >= 16+2+macLen, "c04-accepted-has-room-for-trailer")
		vAssert(r[5]&0x40 != 0, "c04-accepted-has-authenticated-flag")
		mac := refHMAC(alg, vs.k1, r[4:len(r)-macLen])
		vAssert(refBytesEq(r[len(r)-macLen:], mac[:macLen]), "c04-accepted-has-valid-authcode-under-k1")
	} else {
		vReached("rejected")
	}
	vReached("end")
}

// C04 mode B: the reply carries a valid AuthCode under K1 (built by the reference as a
// party holding the session keys would) but every other field is arbitrary: session ID,
// sequence number, encrypted flag, payload bytes. The command may only complete if the
// datagram is addressed to this session, is encrypted, and its plaintext ends in a valid
// 01..p p pad; and then the completion code returned is the one in the plaintext.
func VerifC04_AuthenticReply() {
	auth, integ := vSuite()
	vs := vNewSession(auth, integ)
	vAssume(vs.sess.AuthenticatedSequenceNumbers.Inbound != 0xffffffff)
	// the command is a plain one or Close Session (the one command a library might be
	// tempted to treat leniently)
	var cmd ipmi.Command = &vSynthCmd{op: ipmi.OperationGetDeviceIDReq}
	if vBool() {
		cmd = &ipmi.CloseSessionCmd{Req: ipmi.CloseSessionReq{ID: vs.sess.RemoteID}}
	}
	ctx, cancel := context.WithCancel(context.Background())
	sid, seq := vU32(), vU32()
	encrypted := vBool()
	authenticated := vBool()           // the authenticated flag of the datagram (the trailer is present either way)
	cut := []int{0, 1, 16, -1}[vChoice(4)] // bytes missing from the end of the AuthCode (16: all of it; -1: the whole session trailer, the datagram ends with its payload)
	blocks := 1 + vChoice(vParam("maxblocks", 2))
	var iv, pt, body []byte
	vs.ft.reply = func(attempt int, req []byte) ([]byte, error) {
		cancel()
		alg, macLen := refIntegrityHash(integ)
		var payload []byte
		if encrypted {
			iv = vBytes(16)
			pt = vBytes(16 * blocks) // arbitrary plaintext, including arbitrary (in)valid pads
			payload = append(append([]byte{}, iv...), refAESCBC(true, vs.k2[:16], iv, pt)...)
		} else {
			body = vBytes(vLen(0, 16*blocks))
			payload = body
		}
		flags := byte(0x00)
		if authenticated {
			flags |= 0x40
		}
		if encrypted {
			flags |= 0x80
		}
		d := []byte{0x06, 0x00, 0xff, 0x07, 0x06, flags}
		d = append(d, refPutLE32(sid)...)
		d = append(d, refPutLE32(seq)...)
		d = append(d, byte(len(payload)), 0)
		d = append(d, payload...)
		if cut < 0 {
			return d[:len(d):len(d)], nil
		}
		q := (4 - (12+len(payload)+2)%4) % 4
		for i := 0; i < q; i++ {
			d = append(d, 0xff)
		}
		d = append(d, byte(q), 0x07)
		mac := refHMAC(alg, vs.k1, d[4:])
		if cut > macLen {
			cut = macLen
		}
		d = append(d, mac[:macLen-cut]...)
		return d[:len(d):len(d)], nil
	}
	code, err := vs.sess.SendCommand(ctx, cmd)
	if err == nil {
		vReached("?accepted")
		vAssert(authenticated, "c04-accepted-has-the-authenticated-flag")
		vAssert(cut == 0, "c04-accepted-has-a-complete-authcode")
		vAssert(sid == vs.sess.LocalID, "c04-accepted-is-addressed-to-this-session")
		vAssert(encrypted, "c04-accepted-is-encrypted")
		if encrypted {
			p := int(pt[len(pt)-1])
			vAssert(p <= 16 && p+1+7 <= len(pt), "c04-accepted-pad-length-leaves-a-message")
			okPad := true
			for i := 1; i <= p && i <= len(pt)-1; i++ {
				okPad = okPad && pt[len(pt)-1-p+i-1] == byte(i)
			}
			vAssert(okPad, "c04-accepted-pad-bytes-valid")
			if p+1+7 <= len(pt) {
				m := refParseMsg(pt[:len(pt)-1-p])
				vAssert(m.ok, "c04-accepted-message-checksums-valid")
				// (whether the message is a response to the right command is C11)
				if m.ok && m.netFn&1 == 1 && len(m.data) >= 1 {
					vAssert(byte(code) == m.data[0], "c04-returned-code-is-from-the-authenticated-plaintext")
				}
			}
		}
	} else {
		vReached("rejected")
	}
	vReached("end")
}

package bmc

import (
	"context"

	"github.com/gebn/bmc/pkg/ipmi"
)

// vUsername / vPassword draw credentials by (concrete) length, with symbolic bytes.
func vLenFrom(name string, def []int) int {
	return def[vChoice(len(def))]
}

// C01: the handshake against the reference BMC, for one cipher suite given by the
// caller, succeeds, and both sides hold the same SIK, K1, K2 and session IDs; a command
// sent on the new session verifies and decrypts at the BMC and its response is returned.
func VerifC01_Handshake() {
	ft := &vFakeTransport{}
	s := vNewSessionless(ft)
	auth, integ := 0, 0
	if vParam("suites", 3) == 9 {
		auth, integ = 1+vChoice(3), vWireInteg(vChoice(3))
	} else {
		auth, integ = vSuite()
	}
	var ulen, plen int
	if vParam("alllens", 0) == 1 {
		ulen, plen = vLen(0, 16), vLen(0, 20)
	} else {
		ulen = []int{0, 1, 16}[vChoice(3)]
		plen = []int{0, 1, 20}[vChoice(3)]
	}
	username := vBytes(ulen)
	password := vBytes(plen)
	var kg []byte
	if vBool() {
		kg = vBytes(20)
	}
	priv := byte(vChoice(6)) // concrete case split: keeps the role byte, and with it every derived key, syntactically identical on both sides
	lookup := vBool()
	bmc := &refBMC{password: password, kg: kg, sidC: vU32(), rC: vBytes(16), guid: vBytes(16), useProposal: true}
	handshakeDone := false
	var vs *vSession
	var rspMsg []byte
	ft.reply = func(attempt int, req []byte) ([]byte, error) {
		if !handshakeDone {
			r := bmc.handle(req)
			vAssert(bmc.wellFormed, "c01-console-payload-well-formed-for-the-reference-bmc")
			return r, nil
		}
		// in-session: the BMC verifies and decrypts with ITS keys, then answers
		msg := vCheckSessionDatagram(vs, req, 1, vRandBytes(vRandCalls()))
		m := refParseMsg(msg)
		vAssert(m.ok && m.netFn == 0x06 && m.cmd == 0x01, "c01-bmc-receives-get-device-id")
		rspMsg = refBuildMsg(0x81, 0x07, 0, 0x20, 1, 0, 0x01, append([]byte{0x00}, vBytes(11)...))
		return refSessionPacket(bmc.sidM, 1, bmc.rspInteg, bmc.k1, bmc.k2, vBytes(16), rspMsg), nil
	}
	opts := &V2SessionOpts{
		SessionOpts:          SessionOpts{Username: string(username), Password: password, MaxPrivilegeLevel: ipmi.PrivilegeLevel(priv)},
		PrivilegeLevelLookup: lookup,
		KG:                   kg,
		CipherSuites: []ipmi.CipherSuite{{AuthenticationAlgorithm: ipmi.AuthenticationAlgorithm(auth),
			IntegrityAlgorithm: ipmi.IntegrityAlgorithm(integ), ConfidentialityAlgorithm: ipmi.ConfidentialityAlgorithmAESCBC128}},
	}
	sess, err := s.NewV2Session(context.Background(), opts)
	vAssert(err == nil, "c01-handshake-succeeds")
	if err != nil {
		return
	}
	vAssert(bmc.openSeen && bmc.rakp1Seen && bmc.rakp3Seen, "c01-all-three-exchanges-happened")
	vAssert(bmc.reqAuth == auth && bmc.reqInteg == integ && bmc.reqConf == 1, "c01-proposal-is-the-caller's-suite")
	vAssert(bmc.reqPriv == priv, "c01-open-session-privilege")
	wantRole := priv
	if !lookup {
		wantRole |= 0x10
	}
	vAssert(bmc.role == wantRole, "c01-rakp1-role-byte")
	vAssert(refBytesEq(bmc.uname, username), "c01-rakp1-username")
	vAssert(bmc.rakp3OK, "c01-bmc-accepts-rakp3-authcode")
	vAssert(refBytesEq(sess.SIK, bmc.sik), "c01-sik-agrees")
	vAssert(refBytesEq(sess.K(1), bmc.k1), "c01-k1-agrees")
	vAssert(refBytesEq(sess.K(2), bmc.k2), "c01-k2-agrees")
	vAssert(sess.LocalID == bmc.sidM && sess.RemoteID == bmc.sidC, "c01-session-ids-agree")
	vAssert(int(sess.AuthenticationAlgorithm) == auth && int(sess.IntegrityAlgorithm) == integ && int(sess.ConfidentialityAlgorithm) == 1, "c01-session-algorithms")
	// a command on the new session
	vs = &vSession{ft: ft, sess: sess, auth: auth, integ: integ, sik: bmc.sik, k1: bmc.k1, k2: bmc.k2}
	handshakeDone = true
	n0 := len(ft.sent)
	cmd := &ipmi.GetDeviceIDCmd{}
	code, err := sess.SendCommand(context.Background(), cmd)
	vAssert(err == nil && code == ipmi.CompletionCodeNormal, "c01-command-on-the-session-succeeds")
	vAssert(len(ft.sent) == n0+1, "c01-command-one-datagram")
	if err == nil {
		vAssert(cmd.Rsp.ID == rspMsg[7], "c01-response-returned-to-caller")
	}
	vReached("end")
}

package bmc

import (
	"context"

	"github.com/gebn/bmc/pkg/ipmi"
)

// C05 (whole stack, session-less): the reply to a session-less command is an arbitrary
// byte string of length 0..N; the call must return a value or an error, never panic.
// After K undecodable replies the context is cancelled.
func VerifC05_SessionlessReply() {
	ft := &vFakeTransport{}
	s := vNewSessionless(ft)
	ctx, cancel := context.WithCancel(context.Background())
	k := vParam("cmd", -1)
	if k < 0 {
		k = vChoice(vNumIPMICommands)
	}
	cmd := vCommand(k)
	maxN := vParam("maxlen", 40)
	ft.reply = func(attempt int, req []byte) ([]byte, error) {
		if attempt >= vParam("attempts", 1) {
			cancel()
		}
		n := vLen(0, maxN)
		return vBytes(n), nil
	}
	code, err := s.SendCommand(ctx, cmd)
	_ = code
	if err == nil {
		vReached("accepted")
	} else {
		vReached("error")
	}
	vReached("end")
}

// C05 (whole stack, in-session): the reply to an in-session command is an arbitrary
// byte string (mode 0) or a datagram with a valid AuthCode around an arbitrary plaintext
// crafted by a party that knows the session keys (mode 1).
func VerifC05_SessionReply() {
	auth, integ := vSuite()
	vs := vNewSession(auth, integ)
	vAssume(vs.sess.AuthenticatedSequenceNumbers.Inbound != 0xffffffff)
	ctx, cancel := context.WithCancel(context.Background())
	crafted := vBool()
	k := 0
	if crafted {
		k = vChoice(vNumIPMICommands)
	}
	cmd := vCommand(k)
	vs.ft.reply = func(attempt int, req []byte) ([]byte, error) {
		cancel()
		if !crafted {
			lens := []int{0, 4, 16, 17, 30}
			n := lens[vChoice(len(lens))]
			return vBytes(n), nil
		}
		blocks := 1 + vChoice(vParam("maxblocks", 2))
		return refSessionPacketRaw(vs.sess.LocalID, vU32(), integ, vs.k1, vs.k2, vBytes(16), vBytes(16*blocks)), nil
	}
	_, err := vs.sess.SendCommand(ctx, cmd)
	if err == nil {
		vReached("?accepted")
	} else {
		vReached("error")
	}
	vReached("end")
}

// C05 (whole stack, handshake): each of the three handshake replies is an arbitrary
// byte string (any wrapper, any payload) of a length from a list bracketing the header
// and payload length checks.
func VerifC05_HandshakeReply() {
	ft := &vFakeTransport{}
	s := vNewSessionless(ft)
	ctx, cancel := context.WithCancel(context.Background())
	password := vBytes(4)
	bmc := &refBMC{password: password, sidC: vU32(), rC: vBytes(16), guid: vBytes(16), useProposal: true}
	garbleAt := vChoice(4) // 3: no reply is garbled
	step := 0
	ft.reply = func(attempt int, req []byte) ([]byte, error) {
		if step == garbleAt {
			cancel()
			lens := []int{0, 4, 16, 17, 24}
			return vBytes(lens[vChoice(len(lens))]), nil
		}
		step++
		return bmc.handle(req), nil
	}
	sess, err := s.NewV2Session(ctx, &V2SessionOpts{SessionOpts: SessionOpts{Password: password, MaxPrivilegeLevel: ipmi.PrivilegeLevelUser},
		CipherSuites: []ipmi.CipherSuite{ipmi.CipherSuite3}})
	if err == nil {
		vAssert(sess != nil, "c05-session-or-error")
		vReached("?session")
	} else {
		vReached("error")
	}
	vReached("end")
}

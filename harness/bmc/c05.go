package bmc

import (
	"context"
)

// C05 (whole stack, session-less): the reply to a session-less command is an arbitrary
// byte string of length 0..N; the call must return a value or an error, never panic.
// After K undecodable replies the context is cancelled.
func VerifC05_SessionlessReply() {
	ft := &vFakeTransport{}
	s := vNewSessionless(ft)
	ctx, cancel := context.WithCancel(context.Background())
	k := vParam("cmd", -1)
	if k < 0 {
		k = vChoice(vNumIPMICommands)
	}
	cmd := vCommand(k)
	maxN := vParam("maxlen", 40)
	ft.reply = func(attempt int, req []byte) ([]byte, error) {
		if attempt >= vParam("attempts", 1) {
			cancel()
		}
		n := vLen(0, maxN)
		return vBytes(n), nil
	}
	code, err := s.SendCommand(ctx, cmd)
	_ = code
	if err == nil {
		vReached("accepted")
	} else {
		vReached("error")
	}
	vReached("end")
}

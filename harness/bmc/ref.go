package bmc

// Independent reference implementations of the wire formats (written from the IPMI
// v2.0 layout: RMCP header, RMCP+ session wrapper 13.6, IPMI LAN message 13.8,
// AES-CBC-128 confidentiality 13.29, integrity 13.28.4), used as oracles.

// refChecksumOK is the defining property of the IPMI two's-complement checksum: the
// covered bytes plus the checksum sum to zero modulo 256.
func refChecksumOK(b []byte, c byte) bool {
	t := c
	for _, x := range b {
		t += x
	}
	return t == 0
}

// refChecksum computes the checksum of b (used when the reference builds messages).
func refChecksum(b []byte) byte {
	var t byte
	for _, x := range b {
		t += x
	}
	return -t // two's complement of the sum (its defining property is decided in C20)
}

func refLE16(b []byte) int { return int(b[0]) | int(b[1])<<8 }
func refLE32(b []byte) uint32 {
	return uint32(b[0]) | uint32(b[1])<<8 | uint32(b[2])<<16 | uint32(b[3])<<24
}

func refPutLE32(v uint32) []byte { return []byte{byte(v), byte(v >> 8), byte(v >> 16), byte(v >> 24)} }

func refBytesEq(a, b []byte) bool {
	if len(a) != len(b) {
		return false
	}
	// no short-circuit: one term, not one branch per byte
	var diff byte
	for i := range a {
		diff |= a[i] ^ b[i]
	}
	return diff == 0
}

// integrity algorithm numbers as on the wire: 1 HMAC-SHA1-96, 2 HMAC-MD5-128, 4 HMAC-SHA256-128
func refIntegrityHash(integ int) (alg int, macLen int) {
	switch integ {
	case 1:
		return 1, 12
	case 2:
		return 2, 16
	case 4:
		return 3, 16
	}
	panic("unsupported integrity algorithm")
}

// authentication algorithm numbers as on the wire: 1 RAKP-HMAC-SHA1, 2 RAKP-HMAC-MD5, 3 RAKP-HMAC-SHA256
func refAuthHash(auth int) (alg int, size int) {
	switch auth {
	case 1:
		return 1, 20
	case 2:
		return 2, 16
	case 3:
		return 3, 32
	}
	panic("unsupported authentication algorithm")
}

// refKn is K_n = HMAC_auth(SIK, n repeated 20 times) (13.32).
func refKn(auth int, sik []byte, n byte) []byte {
	alg, _ := refAuthHash(auth)
	c := make([]byte, 20)
	for i := range c {
		c[i] = n
	}
	return refHMAC(alg, sik, c)
}

// refMsg is a parsed IPMI LAN message.
type refMsg struct {
	ok     bool
	rsAddr byte
	netFn  byte
	rsLUN  byte
	rqAddr byte
	rqSeq  byte
	rqLUN  byte
	cmd    byte
	data   []byte // everything between the command byte and the trailing checksum
}

func refParseMsg(m []byte) refMsg {
	var r refMsg
	if len(m) < 7 {
		return r
	}
	if !refChecksumOK(m[0:2], m[2]) {
		return r
	}
	if !refChecksumOK(m[3:len(m)-1], m[len(m)-1]) {
		return r
	}
	r.ok = true
	r.rsAddr = m[0]
	r.netFn = m[1] >> 2
	r.rsLUN = m[1] & 3
	r.rqAddr = m[3]
	r.rqSeq = m[4] >> 2
	r.rqLUN = m[4] & 3
	r.cmd = m[5]
	r.data = m[6 : len(m)-1]
	return r
}

// refBuildMsg encodes an IPMI LAN message (request or response).
func refBuildMsg(rsAddr, netFn, rsLUN, rqAddr, rqSeq, rqLUN, cmd byte, data []byte) []byte {
	m := []byte{rsAddr, netFn<<2 | rsLUN&3, 0, rqAddr, rqSeq<<2 | rqLUN&3, cmd}
	m[2] = refChecksum(m[0:2])
	m = append(m, data...)
	m = append(m, refChecksum(m[3:]))
	return m
}

// refSessionless wraps a payload in RMCP + a null RMCP+ session header.
func refSessionless(payloadType byte, payload []byte) []byte {
	d := []byte{0x06, 0x00, 0xff, 0x07, 0x06, payloadType, 0, 0, 0, 0, 0, 0, 0, 0, byte(len(payload)), byte(len(payload) >> 8)}
	return append(d, payload...)
}

// refSessionPacket builds an authenticated, encrypted in-session datagram as a
// conforming peer would: AES-CBC-128 under K2[:16] with pad 01..p p, integrity pad
// 0xFF.. to a multiple of 4, AuthCode = trunc(HMAC(K1, bytes from auth type to next header)).
func refSessionPacket(sid, seq uint32, integ int, k1, k2, iv, msg []byte) []byte {
	p := (16 - (len(msg)+1)%16) % 16
	pt := append([]byte{}, msg...)
	for i := 1; i <= p; i++ {
		pt = append(pt, byte(i))
	}
	pt = append(pt, byte(p))
	ct := refAESCBC(true, k2[:16], iv, pt)
	payload := append(append([]byte{}, iv...), ct...)
	d := []byte{0x06, 0x00, 0xff, 0x07, 0x06, 0xC0}
	d = append(d, refPutLE32(sid)...)
	d = append(d, refPutLE32(seq)...)
	d = append(d, byte(len(payload)), byte(len(payload)>>8))
	d = append(d, payload...)
	q := (4 - (12+len(payload)+2)%4) % 4
	for i := 0; i < q; i++ {
		d = append(d, 0xff)
	}
	d = append(d, byte(q), 0x07)
	alg, macLen := refIntegrityHash(integ)
	mac := refHMAC(alg, k1, d[4:])
	return append(d, mac[:macLen]...)
}

// refSessionPacketRaw builds an authenticated, encrypted datagram around an arbitrary
// plaintext (whole AES blocks), i.e. with whatever confidentiality pad the plaintext ends in.
func refSessionPacketRaw(sid, seq uint32, integ int, k1, k2, iv, pt []byte) []byte {
	ct := refAESCBC(true, k2[:16], iv, pt)
	payload := append(append([]byte{}, iv...), ct...)
	d := []byte{0x06, 0x00, 0xff, 0x07, 0x06, 0xC0}
	d = append(d, refPutLE32(sid)...)
	d = append(d, refPutLE32(seq)...)
	d = append(d, byte(len(payload)), byte(len(payload)>>8))
	d = append(d, payload...)
	q := (4 - (12+len(payload)+2)%4) % 4
	for i := 0; i < q; i++ {
		d = append(d, 0xff)
	}
	d = append(d, byte(q), 0x07)
	alg, macLen := refIntegrityHash(integ)
	mac := refHMAC(alg, k1, d[4:])
	return append(d, mac[:macLen]...)
}

package bmc

import (
	"context"

	"github.com/gebn/bmc/pkg/ipmi"

	"github.com/google/gopacket"
)

// vSynthCmd is a command whose request body is an arbitrary byte string of a chosen
// length, so that every message length (all residues mod 4 and mod 16) is exercised.
type vSynthCmd struct {
	op   ipmi.Operation
	lun  ipmi.LUN
	body []byte
}

func (c *vSynthCmd) Name() string                        { return "synthetic" }
func (c *vSynthCmd) Operation() *ipmi.Operation          { return &c.op }
func (c *vSynthCmd) RemoteLUN() ipmi.LUN                 { return c.lun }
func (c *vSynthCmd) Request() gopacket.SerializableLayer { return gopacket.Payload(c.body) }
func (c *vSynthCmd) Response() gopacket.DecodingLayer    { return nil }

// vCheckSessionDatagram asserts that d is a well-formed, authenticated, encrypted
// in-session datagram for session vs carrying sequence number seq, whose IV is ivWant,
// and returns the decrypted IPMI message.
func vCheckSessionDatagram(vs *vSession, d []byte, seq uint32, ivWant []byte) []byte {
	_, macLen := refIntegrityHash(vs.integ)
	vAssert(len(d) >= 16+32+2+macLen, "c03-min-length")
	vAssert(d[0] == 0x06 && d[1] == 0x00 && d[2] == 0xff && d[3] == 0x07, "c03-rmcp-header")
	vAssert(d[4] == 0x06, "c03-auth-type-rmcp+")
	vAssert(d[5] == 0xC0, "c03-flags-encrypted-authenticated-ipmi")
	vAssert(refLE32(d[6:10]) == vs.sess.RemoteID, "c03-addressed-to-bmc-session-id")
	vAssert(refLE32(d[10:14]) == seq, "c03-sequence-number")
	l := refLE16(d[14:16])
	vAssert(l >= 32 && l%16 == 0, "c03-payload-length-multiple-of-16")
	vAssert(len(d) >= 16+l+2+macLen, "c03-length-field-fits")
	conf := d[16 : 16+l]
	iv := conf[:16]
	vAssert(refBytesEq(iv, ivWant), "c03-iv-is-this-serialisation's-random")
	pt := refAESCBC(false, vs.k2[:16], iv, conf[16:])
	p := int(pt[len(pt)-1])
	vAssert(p <= 15, "c03-conf-pad-length-range")
	vAssert(len(pt)-1-p >= 7, "c03-conf-pad-leaves-message")
	for i := 1; i <= p; i++ {
		vAssert(pt[len(pt)-1-p+i-1] == byte(i), "c03-conf-pad-bytes-01-02")
	}
	msg := pt[:len(pt)-1-p]
	// integrity trailer
	q := (4 - (12+l+2)%4) % 4
	vAssert(len(d) == 16+l+q+2+macLen, "c03-total-length")
	for i := 0; i < q; i++ {
		vAssert(d[16+l+i] == 0xff, "c03-integrity-pad-ff")
	}
	vAssert(int(d[16+l+q]) == q, "c03-integrity-pad-length")
	vAssert(d[16+l+q+1] == 0x07, "c03-next-header")
	alg, _ := refIntegrityHash(vs.integ)
	mac := refHMAC(alg, vs.k1, d[4:16+l+q+2])
	vAssert(refBytesEq(d[16+l+q+2:], mac[:macLen]), "c03-authcode-is-hmac-k1-over-authtype-to-nextheader")
	return msg
}

// vCheckRequestMsg asserts that msg is the checksum-valid IPMI request for the given
// operation, LUN and body.
func vCheckRequestMsg(msg []byte, netFn, cmd, lun byte, body []byte) {
	m := refParseMsg(msg)
	vAssert(m.ok, "c03-message-checksums-valid")
	vAssert(m.rsAddr == 0x20 && m.rqAddr == 0x81, "c03-message-addresses")
	vAssert(m.netFn == netFn && m.rsLUN == lun, "c03-message-netfn-lun")
	vAssert(m.rqSeq == 1 && m.rqLUN == 0, "c03-message-sequence")
	vAssert(m.cmd == cmd, "c03-message-command")
	vAssert(refBytesEq(m.data, body), "c03-message-body")
}

// C03: a synthetic command with an arbitrary body of every length 0..L is sent on a
// session with arbitrary keys, IDs and sequence pre-state; the single datagram is
// parsed by the reference and must be authenticated, encrypted and well-formed.
func VerifC03_SendSynthetic() {
	auth, integ := vSuite()
	vs := vNewSession(auth, integ)
	s0 := vs.sess.AuthenticatedSequenceNumbers.Inbound
	vAssume(s0 != 0xffffffff)
	n := vLen(0, vParam("maxbody", 18))
	netFn := vByte() & 0x3e                 // any request NetFn
	vAssume(netFn != 0x2c && netFn != 0x2e) // group-extension and OEM NetFns add header bytes; covered by the DCMI harness
	cmd := &vSynthCmd{op: ipmi.Operation{Function: ipmi.NetworkFunction(netFn), Command: ipmi.CommandNumber(vByte())}, lun: ipmi.LUN(vByte() & 3), body: vBytes(n)}
	vs.ft.reply = func(attempt int, req []byte) ([]byte, error) { return nil, vErrLost }
	r0 := vRandCalls()
	_, err := vs.sess.SendCommand(context.Background(), cmd)
	vAssert(err != nil, "c03-lost-reply-is-an-error")
	vAssert(len(vs.ft.sent) == 1, "c03-one-datagram")
	vAssert(vRandCalls() == r0+1, "c03-one-fresh-iv-per-datagram")
	msg := vCheckSessionDatagram(vs, vs.ft.sent[0], s0+1, vRandBytes(r0+1))
	vCheckRequestMsg(msg, netFn, byte(cmd.op.Command), byte(cmd.lun), cmd.body)
	vReached("end")
}

// C03 (every way of sending on a session): each of the session's convenience methods
// (Get System GUID, Get Channel Authentication Capabilities, Get Session Info, Get Device ID,
// chassis status/control, SDR repository info/reservation, sensor reading, privilege level,
// Close) puts exactly one datagram on the wire, and that datagram is addressed to the BMC's
// session ID, authenticated, encrypted and carries the method's own command.
func VerifC03_SessionMethods() {
	auth, integ := vSuite()
	vs := vNewSession(auth, integ)
	s0 := vs.sess.AuthenticatedSequenceNumbers.Inbound
	vAssume(s0 < 0xffffffff-4)
	vs.ft.reply = func(attempt int, req []byte) ([]byte, error) { return nil, vErrLost }
	ctx := context.Background()
	r0 := vRandCalls()
	var netFn, cmd byte
	var err error
	switch vChoice(13) {
	case 0:
		_, err = vs.sess.GetSystemGUID(ctx)
		netFn, cmd = 0x06, 0x37
	case 1:
		_, err = vs.sess.GetChannelAuthenticationCapabilities(ctx, &ipmi.GetChannelAuthenticationCapabilitiesReq{Channel: ipmi.ChannelPresentInterface, MaxPrivilegeLevel: ipmi.PrivilegeLevelUser})
		netFn, cmd = 0x06, 0x38
	case 2:
		_, err = vs.sess.GetSessionInfo(ctx, &ipmi.GetSessionInfoReq{})
		netFn, cmd = 0x06, 0x3D
	case 3:
		_, err = vs.sess.GetDeviceID(ctx)
		netFn, cmd = 0x06, 0x01
	case 4:
		_, err = vs.sess.GetChassisStatus(ctx)
		netFn, cmd = 0x00, 0x01
	case 5:
		err = vs.sess.ChassisControl(ctx, ipmi.ChassisControl(vByte()&0x0f))
		netFn, cmd = 0x00, 0x02
	case 6:
		_, err = vs.sess.GetSDRRepositoryInfo(ctx)
		netFn, cmd = 0x0A, 0x20
	case 7:
		_, err = vs.sess.ReserveSDRRepository(ctx)
		netFn, cmd = 0x0A, 0x22
	case 8:
		_, err = vs.sess.GetSensorReading(ctx, vByte())
		netFn, cmd = 0x04, 0x2D
	case 9:
		_, err = vs.sess.GetSessionPrivilegeLevel(ctx)
		netFn, cmd = 0x06, 0x3B
	case 10:
		level := ipmi.PrivilegeLevel(vByte() & 0x0f)
		vAssume(level != ipmi.PrivilegeLevelCallback) // reserved for this command: refused before sending
		_, err = vs.sess.SetSessionPrivilegeLevel(ctx, level)
		netFn, cmd = 0x06, 0x3B
	case 11:
		err = vs.sess.Close(ctx)
		netFn, cmd = 0x06, 0x3C
	case 12:
		_, err = vs.sess.SendCommand(ctx, &ipmi.GetSystemGUIDCmd{})
		netFn, cmd = 0x06, 0x37
	}
	vAssert(err != nil, "c03-lost-reply-is-an-error")
	vAssert(len(vs.ft.sent) == 1, "c03-one-datagram-per-method-call")
	if len(vs.ft.sent) == 1 {
		msg := vCheckSessionDatagram(vs, vs.ft.sent[0], s0+1, vRandBytes(r0+1))
		m := refParseMsg(msg)
		vAssert(m.ok, "c03-message-checksums-valid")
		vAssert(m.netFn == netFn && m.cmd == cmd, "c03-method-sends-its-own-command")
	}
	vReached("end")
}

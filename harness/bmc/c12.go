package bmc

import (
	"context"

	"github.com/gebn/bmc/pkg/ipmi"
)

// C12 (ii): the BMC answers the Open Session Request with an arbitrary algorithm triple
// (all 64^3 values of the three 6-bit fields) and otherwise completes the handshake as a
// conforming BMC would (computing with the proposed authentication algorithm). A session
// may only be returned if the triple is exactly the proposal; any other answer must be an
// error - never a downgraded session and never a panic.
func VerifC12_OpenSessionAlgorithms() {
	ft := &vFakeTransport{}
	s := vNewSessionless(ft)
	auth, integ := vSuite()
	password := vBytes(20)
	bmc := &refBMC{password: password, sidC: vU32(), rC: vBytes(16), guid: vBytes(16),
		rspAuth: int(vByte() & 0x3f), rspInteg: int(vByte() & 0x3f), rspConf: int(vByte() & 0x3f)}
	if vBool() {
		// some of the three payloads come in the zero-length (wildcard) form
		bmc.rspZeroLen = 1 + vByte()%7
	}
	ft.reply = func(attempt int, req []byte) ([]byte, error) {
		return bmc.handle(req), nil
	}
	opts := &V2SessionOpts{
		SessionOpts: SessionOpts{Username: "", Password: password, MaxPrivilegeLevel: ipmi.PrivilegeLevelAdministrator},
		CipherSuites: []ipmi.CipherSuite{{AuthenticationAlgorithm: ipmi.AuthenticationAlgorithm(auth),
			IntegrityAlgorithm: ipmi.IntegrityAlgorithm(integ), ConfidentialityAlgorithm: ipmi.ConfidentialityAlgorithmAESCBC128}},
	}
	sess, err := s.NewV2Session(context.Background(), opts)
	if err == nil {
		vReached("session")
		vAssert(bmc.rspZeroLen == 0, "c12-session-only-if-every-algorithm-is-named-in-the-response")
		vAssert(bmc.rspAuth == auth, "c12-session-only-with-the-proposed-authentication-algorithm")
		vAssert(bmc.rspInteg == integ, "c12-session-only-with-the-proposed-integrity-algorithm")
		vAssert(bmc.rspConf == 1, "c12-session-only-with-the-proposed-confidentiality-algorithm")
		vAssert(int(sess.IntegrityAlgorithm) == integ && int(sess.ConfidentialityAlgorithm) == 1 && int(sess.AuthenticationAlgorithm) == auth, "c12-session-records-the-proposed-algorithms")
	} else {
		vReached("error")
	}
	vReached("end")
}

func vSuiteEq(a, b ipmi.CipherSuite) bool {
	d := byte(a.AuthenticationAlgorithm^b.AuthenticationAlgorithm) | byte(a.IntegrityAlgorithm^b.IntegrityAlgorithm) |
		byte(a.ConfidentialityAlgorithm^b.ConfidentialityAlgorithm)
	return d == 0
}

// C12 (i): the suite chosen from an ordered preference list of length 0..3 (arbitrary
// algorithm numbers) given an advertised set of 0..4 arbitrary standard records (each with
// one or two confidentiality algorithms) served
// through the real discovery command is the first preference that is advertised; no
// preference advertised gives ErrNoSupportedCipherSuite; a single preference is taken
// without discovery; an empty list means suite 17, then 3.
func VerifC12_Preference() {
	ft := &vFakeTransport{}
	s := vNewSessionless(ft)
	np := vLen(0, 3)
	prefs := make([]ipmi.CipherSuite, np)
	for i := range prefs {
		prefs[i] = ipmi.CipherSuite{AuthenticationAlgorithm: ipmi.AuthenticationAlgorithm(vByte() & 0x3f),
			IntegrityAlgorithm: ipmi.IntegrityAlgorithm(vByte() & 0x3f), ConfidentialityAlgorithm: ipmi.ConfidentialityAlgorithm(vByte() & 0x3f)}
	}
	na := vLen(0, vParam("maxadvertised", 4))
	shapes := make([]int, na)
	if na > 0 && vBool() {
		// one record (the first or the last) advertises two suites that share
		// authentication and integrity algorithms
		shapes[[]int{0, na - 1}[vChoice(2)]] = 4
	}
	bmc := &refSuiteBMC{data: vSuiteRecords(shapes)}
	adv, _ := refParseSuites(bmc.data)
	ft.reply = func(attempt int, req []byte) ([]byte, error) { return bmc.handle(req), nil }
	got, err := s.determineCipherSuite(context.Background(), prefs)
	eff := prefs
	if np == 0 {
		eff = []ipmi.CipherSuite{ipmi.CipherSuite17, ipmi.CipherSuite3}
	}
	if len(eff) == 1 {
		vAssert(err == nil && vSuiteEq(*got, eff[0]), "c12-single-preference-is-proposed")
		vAssert(len(ft.sent) == 0, "c12-single-preference-needs-no-discovery")
		vReached("?single")
		return
	}
	// reference: first preference contained in the advertised set
	found := false
	var want ipmi.CipherSuite
	for _, p := range eff {
		in := false
		for _, a := range adv {
			same := (byte(p.AuthenticationAlgorithm)^a.auth)|(byte(p.IntegrityAlgorithm)^a.integ)|(byte(p.ConfidentialityAlgorithm)^a.conf) == 0
			in = in || same
		}
		if in && !found {
			found, want = true, p
		}
	}
	if found {
		vAssert(err == nil, "c12-a-supported-preference-is-found")
		if err == nil {
			vAssert(vSuiteEq(*got, want), "c12-the-first-supported-preference-is-chosen")
		}
		vReached("?found")
	} else {
		vAssert(err == ErrNoSupportedCipherSuite, "c12-no-supported-preference-is-the-documented-error")
		vReached("?none")
	}
	vReached("end")
}

// C12/C01 (f): a caller-selected suite using None for authentication, integrity or
// confidentiality is refused with an error (never a panic, never a session).
func VerifC12_NoneRefused() {
	ft := &vFakeTransport{}
	s := vNewSessionless(ft)
	suite := ipmi.CipherSuite{AuthenticationAlgorithm: ipmi.AuthenticationAlgorithm(vByte() & 0x3f),
		IntegrityAlgorithm: ipmi.IntegrityAlgorithm(vByte() & 0x3f), ConfidentialityAlgorithm: ipmi.ConfidentialityAlgorithm(vByte() & 0x3f)}
	vAssume(suite.AuthenticationAlgorithm == 0 || suite.IntegrityAlgorithm == 0 || suite.ConfidentialityAlgorithm == 0)
	password := vBytes(4)
	bmc := &refBMC{password: password, sidC: vU32(), rC: vBytes(16), guid: vBytes(16), useProposal: true}
	ft.reply = func(attempt int, req []byte) ([]byte, error) {
		r := bmc.handle(req)
		if r == nil {
			return nil, vErrLost
		}
		return r, nil
	}
	ctx, cancel := context.WithCancel(context.Background())
	cancel()
	sess, err := s.NewV2Session(ctx, &V2SessionOpts{SessionOpts: SessionOpts{Password: password, MaxPrivilegeLevel: ipmi.PrivilegeLevelUser},
		CipherSuites: []ipmi.CipherSuite{suite}})
	vAssert(err != nil && sess == nil, "c12-suites-with-none-are-refused-with-an-error")
	vReached("end")
}

// C12 (histories): the choice made for one BMC does not depend on earlier choices made
// with the same preference list (or the default list) for other BMCs: two discoveries in
// a row, each against its own advertised set; the second must be what the reference says
// for a fresh library state, and the caller's preference list must be left unchanged.
func VerifC12_TwoDiscoveries() {
	useDefault := vBool()
	var prefs []ipmi.CipherSuite
	if !useDefault {
		prefs = []ipmi.CipherSuite{ipmi.CipherSuite17, ipmi.CipherSuite3, {AuthenticationAlgorithm: 2, IntegrityAlgorithm: 2, ConfidentialityAlgorithm: 1}}
	}
	eff := []ipmi.CipherSuite{ipmi.CipherSuite17, ipmi.CipherSuite3}
	if !useDefault {
		eff = append([]ipmi.CipherSuite{}, prefs...)
	}
	for round := 0; round < 2; round++ {
		ft := &vFakeTransport{}
		s := vNewSessionless(ft)
		// each BMC advertises an arbitrary subset of the preferences (as standard records)
		var data []byte
		var adv []ipmi.CipherSuite
		for i, p := range eff {
			if vBool() {
				data = append(data, 0xC0, byte(i), byte(p.AuthenticationAlgorithm), 0x40|byte(p.IntegrityAlgorithm), 0x80|byte(p.ConfidentialityAlgorithm))
				adv = append(adv, p)
			}
		}
		bmc := &refSuiteBMC{data: data}
		ft.reply = func(attempt int, req []byte) ([]byte, error) { return bmc.handle(req), nil }
		got, err := s.determineCipherSuite(context.Background(), prefs)
		if len(adv) == 0 {
			vAssert(err == ErrNoSupportedCipherSuite, "c12-history-no-supported-suite")
		} else {
			vAssert(err == nil && vSuiteEq(*got, adv[0]), "c12-history-first-advertised-preference-whatever-came-before")
		}
		for i := range prefs {
			vAssert(vSuiteEq(prefs[i], eff[i]), "c12-history-caller's-preference-list-unchanged")
		}
	}
	vReached("end")
}

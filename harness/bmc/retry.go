package bmc

import (
	"context"

	"github.com/gebn/bmc/pkg/ipmi"
)

// Per-attempt outcomes the simulated BMC/network can produce.
const (
	oLost      = 0 // no reply: the transport returns an error
	oTruncated = 1 // a valid reply cut short
	oCorrupt   = 2 // a valid reply with a corrupted checksum (session-less) / AuthCode (in-session)
	oStray     = 3 // a valid (in-session: authentic) reply to a different command or NetFn
	oReply     = 4 // 4.. : a valid reply with completion code 00, C0, C3, or any other code
)

const vNumCodes = 4

// refRetry is the reference model of the documented retry behaviour (C10): temporary
// codes (0xC0, 0xC3) and undecodable replies are retried; session-less lost replies are
// retried until the context ends; in-session transport failures end the command; the
// first valid reply with any other code is returned with that code.
type refRetry struct {
	inSession bool
	finished  bool
	failed    bool // finished with an error
	code      byte
	datagrams int
	validRsp  int // replies that decoded to a message (per C18: responses counter)
	rspBusy   int // of those, replies carrying Node Busy (C0h): counted under that code's own label
	rspTmo    int // of those, replies carrying Timeout (C3h)
	ctxDone   bool
	bodyShort bool // the final reply's body does not decode as the command's response
}

// vRetryDriver wires a fake BMC that produces an arbitrary outcome per attempt (at
// most k attempts, after which the context is cancelled) and runs the reference model
// alongside. buildReply builds the authentic reply for a completion code.
type vRetryDriver struct {
	ref        refRetry
	k          int
	cancel     context.CancelFunc
	buildReply func(cc byte) []byte
	corrupt    func(valid []byte) []byte
	// stray builds a well-formed reply (completion code 00) that belongs to another
	// command: the command number or the network function differs from the request's
	stray func(dNetFn, dCmd byte) []byte
}

func (d *vRetryDriver) reply(attempt int, req []byte) ([]byte, error) {
	vAssert(!d.ref.finished, "c10-no-transmission-after-the-call-is-decided")
	vAssert(!d.ref.ctxDone, "c10-no-transmission-after-the-context-ended")
	d.ref.datagrams++
	if attempt >= d.k {
		d.cancel()
		d.ref.ctxDone = true
	}
	o := vChoice(oReply + vNumCodes)
	switch {
	case o == oLost:
		if d.ref.inSession {
			d.ref.finished, d.ref.failed = true, true
		}
		return nil, vErrLost
	case o == oTruncated:
		v := d.buildReply(0x00)
		cuts := []int{0, 5, 17, len(v) - 1}
		c := cuts[vChoice(len(cuts))]
		return v[:c:c], nil
	case o == oCorrupt:
		return d.corrupt(d.buildReply(0x00)), nil
	case o == oStray:
		// C11: a duplicated, delayed or unsolicited reply to something else is not this
		// command's response: it is ignored like an undecodable reply and the command retried
		x := vByte()
		if vBool() {
			vAssume(x != 0)
			return d.stray(0, x), nil
		}
		if d.ref.inSession {
			// the same command with the request-direction NetFn (an echoed request)
			return d.stray(0x01, 0), nil
		}
		vAssume(x&0x3f != 0)
		return d.stray(x&0x3f, 0), nil
	}
	var cc byte
	switch o - oReply {
	case 0:
		cc = 0x00
	case 1:
		cc = 0xC0
	case 2:
		cc = 0xC3
	default:
		// every other completion code is final, whatever its value
		cc = vByte()
		vAssume(cc != 0xC0)
		vAssume(cc != 0xC3)
	}
	d.ref.validRsp++
	if o-oReply == 1 {
		d.ref.rspBusy++
	}
	if o-oReply == 2 {
		d.ref.rspTmo++
	}
	if cc != 0xC0 && cc != 0xC3 {
		d.ref.finished, d.ref.code = true, cc
	}
	return d.buildReply(cc), nil
}

// vCheckOutcome compares the library's result with the reference model's.
func (d *vRetryDriver) vCheckOutcome(code ipmi.CompletionCode, err error, sent int) {
	vAssert(sent == d.ref.datagrams, "c10-transmissions-counted")
	if d.ref.finished && !d.ref.failed && d.ref.bodyShort {
		// a valid final message whose body does not decode: the code is returned with an error
		vAssert(err != nil, "?c10-undecodable-response-body-is-an-error")
		vAssert(byte(code) == d.ref.code, "?c10-code-returned-with-the-body-error")
		vReached("?body-error")
	} else if d.ref.finished && !d.ref.failed {
		vAssert(err == nil, "c10-final-reply-completes-the-command")
		vAssert(byte(code) == d.ref.code, "c10-returns-the-first-final-completion-code")
		vReached("?completed")
	} else {
		vAssert(err != nil, "c10-no-success-without-a-final-reply")
		if !d.ref.finished {
			// nothing final has arrived: the library may only give up because the context ended
			vAssert(d.ref.ctxDone, "c10-keeps-retrying-until-the-context-ends")
		}
		vReached("?failed")
	}
}

// vCheckMetrics asserts the C18 accounting for one SendCommand call.
func (d *vRetryDriver) vCheckMetrics(name string, err error, sent int) {
	vAssert(vMetricL("bmc_command_attempts_total", name) == 1, "c18-attempts-plus-one")
	fail := 0
	if err != nil {
		fail = 1
	}
	vAssert(vMetricL("bmc_command_failures_total", name) == fail, "c18-failures-iff-error")
	retries := sent - 1
	if retries < 0 {
		retries = 0
	}
	vAssert(vMetric("bmc_command_retries_total") == retries, "c18-retries-are-transmissions-beyond-the-first")
	vAssert(vMetric("bmc_command_responses_total") == d.ref.validRsp, "c18-responses-are-valid-replies")
	vAssert(vMetricL("bmc_command_responses_total", ipmi.CompletionCodeNodeBusy.String()) == d.ref.rspBusy, "c18-node-busy-replies-counted-under-their-own-code")
	vAssert(vMetricL("bmc_command_responses_total", ipmi.CompletionCodeTimeout.String()) == d.ref.rspTmo, "c18-timeout-replies-counted-under-their-own-code")
}

// ---- session-less ----

// C09/C10/C18 (session-less): a command is driven through every sequence of per-attempt
// outcomes of length <= K.
func VerifRetry_Sessionless() {
	ft := &vFakeTransport{}
	s := vNewSessionless(ft)
	ctx, cancel := context.WithCancel(context.Background())
	netFn := vByte() & 0x3e
	vAssume(netFn != 0x2c)
	vAssume(netFn != 0x2e)
	var cmd ipmi.Command
	var cmdNo, lun byte
	var reqBody []byte
	name := "synthetic"
	d := &vRetryDriver{k: vParam("attempts", 3), cancel: cancel}
	if vParam("withrsp", 0) == 1 {
		// a command with a response body (Get System GUID, 16 bytes): the final reply's body
		// is either complete or too short to decode
		cmd, netFn, cmdNo, lun, name = &ipmi.GetSystemGUIDCmd{}, 0x06, 0x37, 0, "Get System GUID"
	} else {
		sc := &vSynthCmd{op: ipmi.Operation{Function: ipmi.NetworkFunction(netFn), Command: ipmi.CommandNumber(vByte())}, lun: ipmi.LUN(vByte() & 3), body: vBytes(vParam("body", 2))}
		cmd, cmdNo, lun, reqBody = sc, byte(sc.op.Command), byte(sc.lun), sc.body
	}
	d.buildReply = func(cc byte) []byte {
		data := []byte{cc}
		if vParam("withrsp", 0) == 1 {
			short := vBool()
			if cc != 0xC0 && cc != 0xC3 {
				d.ref.bodyShort = short
			}
			if short {
				data = append(data, vBytes(3)...)
			} else {
				data = append(data, vBytes(16)...)
			}
		}
		m := refBuildMsg(0x81, netFn|1, 0, 0x20, 1, lun, cmdNo, data)
		return refSessionless(0x00, m)
	}
	d.stray = func(dNetFn, dCmd byte) []byte {
		// long enough to be a complete group-extension or OEM response as well (body code /
		// enterprise number after the completion code)
		// (any completion code, any requester sequence number)
		return refSessionless(0x00, refBuildMsg(0x81, (netFn|1)^dNetFn, 0, 0x20, vByte()&0x3f, lun, cmdNo^dCmd, append([]byte{vByte()}, vBytes(4)...)))
	}
	d.corrupt = func(v []byte) []byte {
		x := vByte()
		vAssume(x != 0)
		v[len(v)-1] ^= x
		return v
	}
	ft.reply = d.reply
	code, err := s.SendCommand(ctx, cmd)
	d.vCheckOutcome(code, err, len(ft.sent))
	// C09: outside a session every datagram carries session ID 0 and sequence number 0;
	// C10: every (re)transmission is the complete encoding of the caller's command.
	want := refSessionless(0x00, refBuildMsg(0x20, netFn, lun, 0x81, 1, 0, cmdNo, reqBody))
	for _, dg := range ft.sent {
		vAssert(len(dg) >= 16, "c09-sessionless-has-wrapper")
		vAssert(refLE32(dg[6:10]) == 0 && refLE32(dg[10:14]) == 0, "c09-sessionless-id-and-sequence-zero")
		vAssert(refBytesEq(dg, want), "c10-every-transmission-is-the-reference-encoding-of-the-command")
	}
	d.vCheckMetrics(name, err, len(ft.sent))
	vReached("end")
}

// ---- in-session ----

// C09/C10/C18 (in-session): as above on an established session with arbitrary keys and
// an arbitrary sequence-number pre-state s0: the i-th datagram must carry s0+i.
func VerifRetry_Session() {
	auth, integ := vSuite()
	vs := vNewSession(auth, integ)
	s0 := vs.sess.AuthenticatedSequenceNumbers.Inbound
	k := vParam("attempts", 3)
	vAssume(s0 < 0xffffffff-8)
	ctx, cancel := context.WithCancel(context.Background())
	netFn := vByte() & 0x3e
	vAssume(netFn != 0x2c)
	vAssume(netFn != 0x2e)
	var cmd ipmi.Command
	var cmdNo, lun byte
	var reqBody []byte
	name := "synthetic"
	d := &vRetryDriver{k: k, cancel: cancel}
	if vParam("withrsp", 0) == 1 {
		cmd, netFn, cmdNo, lun, name = &ipmi.GetSystemGUIDCmd{}, 0x06, 0x37, 0, "Get System GUID"
	} else {
		sc := &vSynthCmd{op: ipmi.Operation{Function: ipmi.NetworkFunction(netFn), Command: ipmi.CommandNumber(vByte())}, lun: ipmi.LUN(vByte() & 3), body: vBytes(vParam("body", 2))}
		cmd, cmdNo, lun, reqBody = sc, byte(sc.op.Command), byte(sc.lun), sc.body
	}
	d.ref.inSession = true
	_, macLen := refIntegrityHash(integ)
	bmcSeq := vU32()
	d.buildReply = func(cc byte) []byte {
		data := []byte{cc}
		if vParam("withrsp", 0) == 1 {
			short := vBool()
			if cc != 0xC0 && cc != 0xC3 {
				d.ref.bodyShort = short
			}
			if short {
				data = append(data, vBytes(3)...)
			} else {
				data = append(data, vBytes(16)...)
			}
		}
		m := refBuildMsg(0x81, netFn|1, 0, 0x20, 1, lun, cmdNo, data)
		return refSessionPacket(vs.sess.LocalID, bmcSeq, integ, vs.k1, vs.k2, vBytes(16), m)
	}
	d.stray = func(dNetFn, dCmd byte) []byte {
		m := refBuildMsg(0x81, (netFn|1)^dNetFn, 0, 0x20, vByte()&0x3f, lun, cmdNo^dCmd, []byte{vByte()})
		return refSessionPacket(vs.sess.LocalID, bmcSeq, integ, vs.k1, vs.k2, vBytes(16), m)
	}
	d.corrupt = func(v []byte) []byte {
		x := vByte()
		vAssume(x != 0)
		v[len(v)-macLen] ^= x
		return v
	}
	vs.ft.reply = d.reply
	r0 := vRandCalls()
	code, err := vs.sess.SendCommand(ctx, cmd)
	d.vCheckOutcome(code, err, len(vs.ft.sent))
	for i, dg := range vs.ft.sent {
		// C09: strictly increasing, +1 per transmitted datagram, from the pre-state
		msg := vCheckSessionDatagram(vs, dg, s0+uint32(i)+1, vRandBytes(r0+i+1))
		// C10: each retransmission is a complete encoding of the same command
		vCheckRequestMsg(msg, netFn, cmdNo, lun, reqBody)
	}
	vAssert(vs.sess.AuthenticatedSequenceNumbers.Inbound == s0+uint32(len(vs.ft.sent)), "c09-counter-advanced-by-transmissions")
	d.vCheckMetrics(name, err, len(vs.ft.sent))
	vReached("end")
}

// C09 (history across Close): Close with any outcome (accepted, refused with a completion
// code, reply lost) followed by another command on the same session value - the BMC may
// well still hold the session when Close was refused or its reply lost. The sequence
// numbers keep counting: datagram i of the history carries s0+i.
func VerifC09_CloseThenCommand() {
	auth, integ := vSuite()
	vs := vNewSession(auth, integ)
	s0 := vs.sess.AuthenticatedSequenceNumbers.Inbound
	vAssume(s0 < 0xffffffff-8)
	closeOutcome := vChoice(3)
	cc := vByte()
	vAssume(cc != 0x00)
	vAssume(cc != 0xC0)
	vAssume(cc != 0xC3)
	n := 0
	vs.ft.reply = func(attempt int, req []byte) ([]byte, error) {
		n++
		cmdNo, code := byte(0x3C), byte(0x00)
		if n == 1 {
			switch closeOutcome {
			case 1:
				code = cc
			case 2:
				return nil, vErrLost
			}
		} else {
			cmdNo = 0x01
		}
		m := refBuildMsg(0x81, 0x07, 0, 0x20, 1, 0, cmdNo, []byte{code})
		return refSessionPacket(vs.sess.LocalID, uint32(n), integ, vs.k1, vs.k2, vBytes(16), m), nil
	}
	r0 := vRandCalls()
	errClose := vs.sess.Close(context.Background())
	if closeOutcome == 0 {
		vAssert(errClose == nil, "c09-accepted-close-succeeds")
	} else {
		vAssert(errClose != nil, "c09-refused-or-lost-close-is-an-error")
	}
	_, err := vs.sess.SendCommand(context.Background(), &vSynthCmd{op: ipmi.OperationGetDeviceIDReq})
	vAssert(err == nil, "c09-command-after-close-attempt-completes")
	vAssert(len(vs.ft.sent) == 2, "c09-one-datagram-per-call")
	for i, dg := range vs.ft.sent {
		vCheckSessionDatagram(vs, dg, s0+uint32(i)+1, vRandBytes(r0+i+1))
	}
	vAssert(vs.sess.AuthenticatedSequenceNumbers.Inbound == s0+uint32(len(vs.ft.sent)), "c09-counter-advanced-by-transmissions")
	vReached("end")
}

// C10 (handshake exchanges): the first answer to each of the three handshake requests may be
// a stray session-less IPMI message (the late reply to an earlier command) or undecodable
// bytes; the library re-sends the same setup payload and the handshake completes with the
// BMC's proper answers.
func VerifC10_HandshakeStray() {
	ft := &vFakeTransport{}
	s := vNewSessionless(ft)
	password := vBytes(20)
	bmc := &refBMC{password: password, sidC: vU32(), rC: vBytes(16), guid: vBytes(16), useProposal: true}
	strayAt := [3]int{vChoice(3), vChoice(3), vChoice(3)} // per exchange: 0 none, 1 stray message, 2 garbage
	step, tries := 0, 0
	var first []byte
	ft.reply = func(attempt int, req []byte) ([]byte, error) {
		tries++
		if tries == 1 {
			first = req
			if step < 3 && strayAt[step] == 1 {
				return refSessionless(0x00, refBuildMsg(0x81, 0x07, 0, 0x20, 1, 0, 0x38, []byte{0x00, 0x01, 0x80, 0x14, 0x02, 0, 0, 0, 0})), nil
			}
			if step < 3 && strayAt[step] == 2 {
				return []byte{0x06, 0x00, 0xff, 0x07, 0x06, 0x11}, nil
			}
		} else {
			vAssert(refBytesEq(req, first), "c10-handshake-retransmission-is-the-same-payload")
		}
		r := bmc.handle(req)
		vAssert(r != nil && bmc.wellFormed, "c10-handshake-payload-well-formed")
		step++
		tries = 0
		return r, nil
	}
	sess, err := s.NewV2Session(context.Background(), &V2SessionOpts{
		SessionOpts:  SessionOpts{Password: password, MaxPrivilegeLevel: ipmi.PrivilegeLevelUser},
		CipherSuites: []ipmi.CipherSuite{ipmi.CipherSuite3}})
	vAssert(err == nil && sess != nil, "c10-handshake-completes-after-stray-or-garbage-replies")
	want := 3
	for _, k := range strayAt {
		if k != 0 {
			want++
		}
	}
	vAssert(len(ft.sent) == want, "c10-handshake-one-retransmission-per-unusable-reply")
	vReached("end")
}

// C09 (two sessions on one connection): two sessions opened one after the other over the
// same connection (to the same BMC) and then used alternately. Each session's datagrams
// carry its own numbers 1, 2, ... - opening or using the other session neither resets nor
// advances them.
func VerifC09_TwoSessions() {
	ft := &vFakeTransport{}
	s := vNewSessionless(ft)
	password := vBytes(8)
	bmcs := []*refBMC{
		{password: password, sidC: vU32(), rC: vBytes(16), guid: vBytes(16), useProposal: true},
		{password: password, sidC: vU32(), rC: vBytes(16), guid: vBytes(16), useProposal: true},
	}
	vAssume(bmcs[0].sidC != bmcs[1].sidC)
	cur := 0
	var seqs [2][]uint32
	ft.reply = func(attempt int, req []byte) ([]byte, error) {
		if len(req) > 16 && req[5] == 0xC0 {
			// an in-session IPMI message: note the session it is addressed to and its number
			which := 1
			if refLE32(req[6:10]) == bmcs[0].sidC {
				which = 0
			}
			seqs[which] = append(seqs[which], refLE32(req[10:14]))
			b := bmcs[which]
			m := refBuildMsg(0x81, 0x07, 0, 0x20, 1, 0, 0x01, []byte{0x00})
			return refSessionPacket(b.sidM, uint32(len(seqs[which])), b.rspInteg, b.k1, b.k2, vBytes(16), m), nil
		}
		return bmcs[cur].handle(req), nil
	}
	opts := &V2SessionOpts{SessionOpts: SessionOpts{Password: password, MaxPrivilegeLevel: ipmi.PrivilegeLevelUser},
		CipherSuites: []ipmi.CipherSuite{ipmi.CipherSuite3}}
	a, errA := s.NewV2Session(context.Background(), opts)
	vAssert(errA == nil, "c09-first-session-opens")
	cur = 1
	b, errB := s.NewV2Session(context.Background(), opts)
	vAssert(errB == nil, "c09-second-session-opens")
	if errA != nil || errB != nil {
		return
	}
	for i := 0; i < 2; i++ {
		_, err := a.SendCommand(context.Background(), &vSynthCmd{op: ipmi.OperationGetDeviceIDReq})
		vAssert(err == nil, "c09-command-on-first-session-completes")
		_, err = b.SendCommand(context.Background(), &vSynthCmd{op: ipmi.OperationGetDeviceIDReq})
		vAssert(err == nil, "c09-command-on-second-session-completes")
	}
	for w := 0; w < 2; w++ {
		vAssert(len(seqs[w]) == 2, "c09-each-session-sent-its-two-commands")
		for i, q := range seqs[w] {
			vAssert(q == uint32(i)+1, "c09-each-session-counts-from-one-by-itself")
		}
	}
	vReached("end")
}

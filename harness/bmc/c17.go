package bmc

import (
	"context"

	"github.com/gebn/bmc/pkg/ipmi"
)

// vAnswer builds a well-formed session-less response to cmd with the given completion
// code and body.
func vAnswer(k int, cmd ipmi.Command, cc byte, body []byte) []byte {
	netFn, cmdNo, lun, _, _ := refRequest(k, cmd)
	return refSessionless(0x00, refBuildMsg(0x81, netFn|1, 0, 0x20, 1, lun, cmdNo, append([]byte{cc}, body...)))
}

// C17 (connection level): a command sent on a connection that has just carried another
// command with an arbitrary response gives the same completion code, error verdict and
// decoded response fields, and transmits the same bytes, as on a fresh connection; the
// earlier command is either another command value or the very same one (command reuse).
func VerifC17_BackToBack() {
	// reuse: the same command value is sent twice on the used connection (as the library's
	// own multi-step retrievals do), so its response part has already been decoded into
	reuse := vBool()
	k2 := vParam("second", -1)
	if k2 < 0 {
		k2 = vChoice(vNumIPMICommands)
	}
	k1 := k2
	if !reuse {
		k1 = vChoice(vNumIPMICommands)
	}
	lens := []int{0, 1, 3, 16}
	cc1, body1 := vByte(), vBytes(lens[vChoice(len(lens))])
	vAssume(cc1 != 0xC0)
	vAssume(cc1 != 0xC3)
	cc2, body2 := vByte(), vBytes(lens[vChoice(len(lens))])
	vAssume(cc2 != 0xC0)
	vAssume(cc2 != 0xC3)
	// the second command's field values are drawn once and used on both connections
	cmdA := vCommand(k2)
	cmdB := vCommand(k2)
	_, _, _, reqB, okB := refRequest(k2, cmdB)
	_, _, _, reqA, _ := refRequest(k2, cmdA)
	vAssume(len(reqA) == len(reqB))
	for i := range reqA {
		vAssume(reqA[i] == reqB[i])
	}
	vAssume(okB)
	if sr, ok := cmdA.(*ipmi.GetSensorReadingCmd); ok {
		vAssume(sr.OwnerLUN == cmdB.(*ipmi.GetSensorReadingCmd).OwnerLUN)
	}

	used := &vFakeTransport{}
	su := vNewSessionless(used)
	first := cmdA
	if !reuse {
		first = vCommand(k1)
	}
	_, _, _, _, ok1 := refRequest(k1, first)
	vAssume(ok1)
	used.reply = func(attempt int, req []byte) ([]byte, error) {
		if attempt == 1 {
			// the first answer comes in a session wrapper with arbitrary session ID and
			// sequence number (nothing makes a BMC send null ones)
			a := vAnswer(k1, first, cc1, body1)
			copy(a[6:10], refPutLE32(vU32()))
			copy(a[10:14], refPutLE32(vU32()))
			a[2] = vByte() // and an arbitrary RMCP sequence number

			return a, nil
		}
		return vAnswer(k2, cmdA, cc2, body2), nil
	}
	su.SendCommand(context.Background(), first)
	codeA, errA := su.SendCommand(context.Background(), cmdA)

	fresh := &vFakeTransport{}
	sf := vNewSessionless(fresh)
	fresh.reply = func(attempt int, req []byte) ([]byte, error) { return vAnswer(k2, cmdB, cc2, body2), nil }
	codeB, errB := sf.SendCommand(context.Background(), cmdB)

	vAssert(len(used.sent) == 2 && len(fresh.sent) == 1, "c17-one-datagram-per-command")
	vAssert(refBytesEq(used.sent[1], fresh.sent[0]), "c17-same-request-bytes-as-on-a-fresh-connection")
	vAssert(refBytesEq(used.sent[1][:4], []byte{0x06, 0x00, 0xff, 0x07}), "c06-rmcp-header-version-6-sequence-ff-class-ipmi-after-any-reply")
	vAssert(refLE32(used.sent[1][6:10]) == 0 && refLE32(used.sent[1][10:14]) == 0, "c09-sessionless-id-and-sequence-zero-after-any-reply")
	vAssert((errA == nil) == (errB == nil), "c17-same-error-verdict-as-on-a-fresh-connection")
	vAssert(codeA == codeB, "c17-same-completion-code-as-on-a-fresh-connection")
	if errA == nil && errB == nil && cmdA.Response() != nil {
		vAssert(vSameFields(cmdA.Response(), cmdB.Response(), "BaseLayer"), "?c17-same-response-fields-as-on-a-fresh-connection")
	}
	vReached("end")
}

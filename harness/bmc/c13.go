package bmc

import (
	"context"
	"time"

	"github.com/gebn/bmc/pkg/ipmi"

	"github.com/cenkalti/backoff/v4"
)

const (
	vMs        = int64(time.Millisecond)
	vAllowance = 30 * vMs  // scheduling allowance (native replay uses the real clock)
	vAttempt   = 100 * vMs // per-attempt timeout of the connection
	vBackoff   = 15 * vMs  // constant back-off between attempts
)

var vErrTimeout = context.DeadlineExceeded

// vTimedTransport is a fake transport in which time passes: a Send returns at an
// arbitrary instant not later than the deadline of the context it was given (as the real
// transport does, which sets that deadline on the socket), with a lost reply (timeout at
// the deadline), garbage, a temporary completion code or a valid final reply.
type vTimedTransport struct {
	vFakeTransport
	deadline   int64 // the caller's context deadline (the instant the call must not outlive)
	delivered  bool  // a valid final reply was handed to the library
	buildFinal func() []byte
	buildBusy  func() []byte
	buildStale func() []byte // optional: a valid reply that belongs to another command (duplicate / delayed)
	prompt     bool          // answer at once with the final reply (no draws, no assertions)
	sends      int
	record     bool
}

func (t *vTimedTransport) Send(ctx context.Context, b []byte) ([]byte, error) {
	t.sends++
	if t.record {
		cp := make([]byte, len(b))
		copy(cp, b)
		t.sent = append(t.sent, cp)
	}
	if t.prompt {
		return t.buildFinal(), nil
	}
	now := vNowNs()
	vAssert(now <= t.deadline+vAllowance, "c13-no-transmission-after-the-context's-deadline")
	dl, ok := vCtxDeadlineNs(ctx)
	vAssert(ok, "c13-every-attempt-has-a-deadline")
	if !ok {
		vEnd()
	}
	vAssert(dl <= t.deadline+vAllowance, "c13-attempt-deadline-not-later-than-the-context's")
	vAssert(dl <= now+vAttempt+vAllowance, "c13-attempt-deadline-within-the-per-attempt-timeout")
	if dl <= now {
		return nil, vErrTimeout // the socket deadline has already passed
	}
	n := 4
	if t.buildStale != nil {
		n = 5
	}
	switch vChoice(n) {
	case 4: // a duplicated or delayed reply to some other command, after a delay
		vSleepUntilNs(t.arrival(now, dl))
		return t.buildStale(), nil
	case 0: // black hole: the read times out at the deadline
		vSleepUntilNs(dl)
		return nil, vErrTimeout
	case 1: // garbage after a delay
		vSleepUntilNs(t.arrival(now, dl))
		return []byte{0x06, 0x00, 0xff}, nil
	case 2: // temporary completion code after a delay
		vSleepUntilNs(t.arrival(now, dl))
		return t.buildBusy(), nil
	}
	vSleepUntilNs(t.arrival(now, dl))
	t.delivered = true
	return t.buildFinal(), nil
}

// arrival draws an arbitrary instant in [now, dl) at which the reply arrives.
func (t *vTimedTransport) arrival(now, dl int64) int64 {
	d := int64(vU32()) * 1000 // microsecond granularity
	vAssume(d <= 60*vMs)
	at := now + d
	vAssume(at < dl)
	return at
}

// C13 (session-less command): for every pattern of lost, late, garbage and temporary
// replies and every arrival instant, SendCommand returns no later than its context's
// deadline (plus the allowance), every attempt is given a deadline within both the
// context's and the per-attempt timeout, success implies a valid reply was received, and
// an already expired context yields an error without any reply being accepted.
func VerifC13_Sessionless() {
	tt := &vTimedTransport{}
	s := newV2SessionlessTransport(tt, &dialConfig{timeout: time.Duration(vAttempt)})
	s.backoff = backoff.NewConstantBackOff(time.Duration(vBackoff))
	d := []int64{0, 40 * vMs}[vChoice(2)]
	tt.deadline = d
	cmd := &vSynthCmd{op: ipmi.OperationGetDeviceIDReq}
	tt.buildFinal = func() []byte {
		return refSessionless(0x00, refBuildMsg(0x81, 0x07, 0, 0x20, 1, 0, 0x01, []byte{0x00}))
	}
	tt.buildBusy = func() []byte {
		return refSessionless(0x00, refBuildMsg(0x81, 0x07, 0, 0x20, 1, 0, 0x01, []byte{0xC0}))
	}
	tt.buildStale = func() []byte {
		return refSessionless(0x00, refBuildMsg(0x81, 0x07, 0, 0x20, 1, 0, 0x37, []byte{0x00}))
	}
	vSetRetryBound(6)
	vClockStart()
	ctx, cancel := context.WithTimeout(context.Background(), time.Duration(d))
	defer cancel()
	_, err := s.SendCommand(ctx, cmd)
	end := vNowNs()
	vAssert(end <= d+vAllowance, "c13-call-returns-by-its-context's-deadline")
	if err == nil {
		vAssert(tt.delivered, "c13-success-only-with-a-valid-response")
		vReached("?success")
	} else {
		vReached("?error")
	}
	if d == 0 {
		vAssert(err != nil, "c13-expired-context-gives-an-error")
	}
	vReached("end")
}

// C13 (in-session command): as above on an established session; a transport failure ends
// the command at once.
func VerifC13_Session() {
	tt := &vTimedTransport{}
	auth, integ := vSuite()
	vs := vNewSessionOn(tt, &tt.vFakeTransport, auth, integ)
	vAssume(vs.sess.AuthenticatedSequenceNumbers.Inbound < 0xffffff00)
	vs.sess.timeout = time.Duration(vAttempt)
	vs.sess.backoff = backoff.NewConstantBackOff(time.Duration(vBackoff))
	d := []int64{0, 40 * vMs}[vChoice(2)]
	tt.deadline = d
	cmd := &vSynthCmd{op: ipmi.OperationGetDeviceIDReq}
	// the blocking call is either a command or the session's Close (Close Session, 0x3C)
	useClose := vBool()
	cmdNo := byte(0x01)
	if useClose {
		cmdNo = 0x3C
	}
	reply := func(no, cc byte) []byte {
		m := refBuildMsg(0x81, 0x07, 0, 0x20, 1, 0, no, []byte{cc})
		return refSessionPacket(vs.sess.LocalID, 1, integ, vs.k1, vs.k2, vBytes(16), m)
	}
	tt.buildFinal = func() []byte { return reply(cmdNo, 0x00) }
	tt.buildBusy = func() []byte { return reply(cmdNo, 0xC3) }
	tt.buildStale = func() []byte { return reply(0x37, 0x00) }
	vSetRetryBound(6)
	vClockStart()
	ctx, cancel := context.WithTimeout(context.Background(), time.Duration(d))
	defer cancel()
	var err error
	if useClose {
		err = vs.sess.Close(ctx)
	} else {
		_, err = vs.sess.SendCommand(ctx, cmd)
	}
	vAssert(vNowNs() <= d+vAllowance, "c13-call-returns-by-its-context's-deadline")
	if err == nil {
		vAssert(tt.delivered, "c13-success-only-with-a-valid-response")
		vReached("?success")
	} else {
		vReached("?error")
	}
	if d == 0 {
		vAssert(err != nil, "c13-expired-context-gives-an-error")
	}
	vReached("end")
}

// C13 (history): a command on a session - with any outcome, in particular a lost reply -
// followed by Close under a fresh 40 ms deadline: Close too returns by its deadline and
// reports success only if a valid response to it arrived, whatever happened before.
func VerifC13_CommandThenClose() {
	tt := &vTimedTransport{}
	auth, integ := vSuite()
	vs := vNewSessionOn(tt, &tt.vFakeTransport, auth, integ)
	vAssume(vs.sess.AuthenticatedSequenceNumbers.Inbound < 0xffffff00)
	vs.sess.timeout = time.Duration(vAttempt)
	vs.sess.backoff = backoff.NewConstantBackOff(time.Duration(vBackoff))
	cmdNo := byte(0x01)
	reply := func(no, cc byte) []byte {
		m := refBuildMsg(0x81, 0x07, 0, 0x20, 1, 0, no, []byte{cc})
		return refSessionPacket(vs.sess.LocalID, 1, integ, vs.k1, vs.k2, vBytes(16), m)
	}
	tt.buildFinal = func() []byte { return reply(cmdNo, 0x00) }
	tt.buildBusy = func() []byte { return reply(cmdNo, 0xC3) }
	vSetRetryBound(4)
	vClockStart()
	tt.deadline = 40 * vMs
	ctx, cancel := context.WithTimeout(context.Background(), time.Duration(40*vMs))
	_, err := vs.sess.SendCommand(ctx, &vSynthCmd{op: ipmi.OperationGetDeviceIDReq})
	cancel()
	vAssert(vNowNs() <= tt.deadline+vAllowance, "c13-call-returns-by-its-context's-deadline")
	if err == nil {
		vAssert(tt.delivered, "c13-success-only-with-a-valid-response")
	}
	// Close
	cmdNo = 0x3C
	tt.delivered = false
	start := vNowNs()
	tt.deadline = start + 40*vMs
	ctx2, cancel2 := context.WithTimeout(context.Background(), time.Duration(40*vMs))
	defer cancel2()
	sentBefore := tt.sends
	err = vs.sess.Close(ctx2)
	vAssert(vNowNs() <= tt.deadline+vAllowance, "c13-close-returns-by-its-context's-deadline")
	if err == nil {
		vAssert(tt.delivered && tt.sends > sentBefore, "c13-close-succeeds-only-with-a-valid-response")
		vReached("?close-ok")
	} else {
		vReached("?close-error")
	}
	vReached("end")
}

// C13 (history): a second session open on a connection whose first open ran under another,
// still live, context. The second open - every reply lost, late or garbage - must answer
// to its own context: no transmission after its deadline, return by it.
func VerifC13_SecondHandshake() {
	tt := &vTimedTransport{}
	s := newV2SessionlessTransport(tt, &dialConfig{timeout: time.Duration(vAttempt)})
	s.backoff = backoff.NewConstantBackOff(time.Duration(vBackoff))
	password := vBytes(4)
	bmc := &refBMC{password: password, sidC: vU32(), rC: vBytes(16), guid: vBytes(16), useProposal: true}
	tt.buildFinal = func() []byte { return bmc.handle(tt.sent[len(tt.sent)-1]) }
	tt.buildBusy = func() []byte { return []byte{0x06, 0x00, 0xff, 0x07, 0x06} }
	tt.record = true
	opts := &V2SessionOpts{SessionOpts: SessionOpts{Password: password, MaxPrivilegeLevel: ipmi.PrivilegeLevelUser},
		CipherSuites: []ipmi.CipherSuite{ipmi.CipherSuite3}}
	vSetRetryBound(6)
	vClockStart()
	// first open: answered at once, under a context that stays alive for ten seconds
	ctx1, cancel1 := context.WithTimeout(context.Background(), 10*time.Second)
	defer cancel1()
	tt.prompt = true
	_, err := s.NewV2Session(ctx1, opts)
	vAssert(err == nil, "c13-first-open-succeeds")
	// second open under its own 40 ms deadline
	tt.prompt = false
	bmc2 := &refBMC{password: password, sidC: vU32(), rC: vBytes(16), guid: vBytes(16), useProposal: true}
	tt.buildFinal = func() []byte { return bmc2.handle(tt.sent[len(tt.sent)-1]) }
	start := vNowNs()
	tt.deadline = start + 40*vMs
	ctx2, cancel2 := context.WithTimeout(context.Background(), time.Duration(40*vMs))
	defer cancel2()
	sess, err := s.NewV2Session(ctx2, opts)
	vAssert(vNowNs() <= tt.deadline+vAllowance, "c13-call-returns-by-its-context's-deadline")
	if err == nil {
		vAssert(sess != nil && bmc2.rakp3Seen, "c13-success-only-after-the-whole-exchange")
		vReached("?success")
	} else {
		vReached("?error")
	}
	vReached("end")
}

// C13 (session handshake): the reference BMC answers each of the three exchanges after an
// arbitrary delay, loses it, or answers with garbage.
func VerifC13_Handshake() {
	tt := &vTimedTransport{}
	s := newV2SessionlessTransport(tt, &dialConfig{timeout: time.Duration(vAttempt)})
	s.backoff = backoff.NewConstantBackOff(time.Duration(vBackoff))
	password := vBytes(4)
	bmc := &refBMC{password: password, sidC: vU32(), rC: vBytes(16), guid: vBytes(16), useProposal: true}
	d := []int64{0, 40 * vMs}[vChoice(2)]
	tt.deadline = d
	tt.buildFinal = func() []byte { return bmc.handle(tt.sent[len(tt.sent)-1]) }
	tt.buildBusy = func() []byte { return []byte{0x06, 0x00, 0xff, 0x07, 0x06} }
	tt.record = true
	vSetRetryBound(5)
	vClockStart()
	ctx, cancel := context.WithTimeout(context.Background(), time.Duration(d))
	defer cancel()
	sess, err := s.NewV2Session(ctx, &V2SessionOpts{SessionOpts: SessionOpts{Password: password, MaxPrivilegeLevel: ipmi.PrivilegeLevelUser},
		CipherSuites: []ipmi.CipherSuite{ipmi.CipherSuite3}})
	vAssert(vNowNs() <= d+vAllowance, "c13-call-returns-by-its-context's-deadline")
	if err == nil {
		vAssert(sess != nil && bmc.rakp3Seen, "c13-success-only-after-the-whole-exchange")
		vReached("?success")
	} else {
		vReached("?error")
	}
	if d == 0 {
		vAssert(err != nil, "c13-expired-context-gives-an-error")
	}
	vReached("end")
}

// vTimedRepo is the reference SDR repository behind a session in which time passes: each
// command is entered no later than the caller's deadline and either succeeds at once, fails
// after an arbitrary delay, or is lost (fails at the context's deadline).
type vTimedRepo struct {
	refSDRRepo
	deadline int64
	calls    int
}

func (b *vTimedRepo) step(ctx context.Context) error {
	b.calls++
	now := vNowNs()
	vAssert(now <= b.deadline+vAllowance, "c13-no-command-started-after-the-context's-deadline")
	dl, ok := vCtxDeadlineNs(ctx)
	vAssert(ok && dl <= b.deadline+vAllowance, "c13-commands-carry-the-caller's-deadline")
	if !ok {
		vEnd()
	}
	if dl <= now {
		return vErrTimeout
	}
	switch vChoice(3) {
	case 0:
		return nil
	case 1: // a failure reported after a delay (e.g. an invalid reply)
		d := int64(vU32()) * 1000
		vAssume(d <= 60*vMs)
		vAssume(now+d < dl)
		vSleepUntilNs(now + d)
		return vErrTimeout
	}
	vSleepUntilNs(dl)
	return vErrTimeout
}

func (b *vTimedRepo) GetSDRRepositoryInfo(ctx context.Context) (*ipmi.GetSDRRepositoryInfoRsp, error) {
	if err := b.step(ctx); err != nil {
		return nil, err
	}
	return b.refSDRRepo.GetSDRRepositoryInfo(ctx)
}

func (b *vTimedRepo) ReserveSDRRepository(ctx context.Context) (*ipmi.ReserveSDRRepositoryRsp, error) {
	if err := b.step(ctx); err != nil {
		return nil, err
	}
	return b.refSDRRepo.ReserveSDRRepository(ctx)
}

func (b *vTimedRepo) SendCommand(ctx context.Context, c ipmi.Command) (ipmi.CompletionCode, error) {
	if err := b.step(ctx); err != nil {
		return 0, err
	}
	return b.refSDRRepo.SendCommand(ctx, c)
}

// C13 (SDR repository retrieval): RetrieveSDRRepository retries a failed walk with an
// exponential back-off; for every pattern of failing and lost commands it starts no command
// after its context's deadline and returns by it.
func VerifC13_SDRRetrieval() {
	d := []int64{0, 40 * vMs}[vChoice(2)]
	b := &vTimedRepo{deadline: d}
	b.records = []refRecord{{id: 1, typ: 0xC0, body: []byte{1, 2, 3}}}
	b.reservation = 7
	if vBool() { // the repository is modified during the first walk
		b.changeAt = 1
		b.newRecords = []refRecord{{id: 2, typ: 0xC0, body: []byte{4}}}
	}
	vSetRetryBound(4)
	vClockStart()
	ctx, cancel := context.WithTimeout(context.Background(), time.Duration(d))
	defer cancel()
	_, err := RetrieveSDRRepository(ctx, b)
	vAssert(vNowNs() <= d+vAllowance, "c13-call-returns-by-its-context's-deadline")
	if err == nil {
		vReached("?success")
	} else {
		vReached("?error")
	}
	if d == 0 {
		vAssert(err != nil, "c13-expired-context-gives-an-error")
	}
	vReached("end")
}

package bmc

// refBMC is a reference implementation of the BMC side of the RMCP+ / RAKP handshake
// (IPMI v2.0 13.17-13.24, 13.28, 13.31, 13.32), written independently of the library:
// it parses the console's payloads with its own parser, derives keys with refHMAC and
// answers as a conforming BMC does.
type refBMC struct {
	// configuration
	password []byte
	kg       []byte // nil: one-key login, K_G = K_UID
	sidC     uint32
	rC, guid []byte
	// the algorithms the BMC places in its Open Session Response (normally the proposal)
	rspAuth, rspInteg, rspConf int
	useProposal                bool
	// bit i set: algorithm payload i of the Open Session Response is sent in the
	// zero-length (wildcard) form, which confirms nothing
	rspZeroLen byte

	// learnt from the console
	reqAuth, reqInteg, reqConf int
	reqPriv                    byte
	sidM                       uint32
	rM                         []byte
	role                       byte
	uname                      []byte
	openSeen, rakp1Seen        bool
	rakp3OK                    bool
	rakp3Seen                  bool
	sik, k1, k2                []byte
	wellFormed                 bool
}

func refAlgPayload(kind byte, alg int) []byte {
	return []byte{kind, 0, 0, 8, byte(alg), 0, 0, 0}
}

// the BMC computes with the authentication algorithm the console proposed, whatever
// it writes into its Open Session Response
func (b *refBMC) hashAlg() int {
	alg, _ := refAuthHash(b.reqAuth)
	return alg
}

func (b *refBMC) userData() []byte {
	d := []byte{b.role, byte(len(b.uname))}
	return append(d, b.uname...)
}

func (b *refBMC) kgKey() []byte {
	if len(b.kg) != 0 {
		return b.kg
	}
	return b.password
}

// handle consumes one session-less datagram from the console and returns the reply.
func (b *refBMC) handle(req []byte) []byte {
	b.wellFormed = len(req) >= 16 && req[0] == 0x06 && req[1] == 0 && req[2] == 0xff && req[3] == 0x07 &&
		req[4] == 0x06 && refLE32(req[6:10]) == 0 && refLE32(req[10:14]) == 0 && refLE16(req[14:16]) == len(req)-16
	if !b.wellFormed {
		return nil
	}
	p := req[16:]
	switch req[5] {
	case 0x10: // Open Session Request
		if len(p) != 32 {
			b.wellFormed = false
			return nil
		}
		b.openSeen = true
		tag := p[0]
		b.reqPriv = p[1]
		b.sidM = refLE32(p[4:8])
		b.reqAuth, b.reqInteg, b.reqConf = int(p[12]), int(p[20]), int(p[28])
		b.wellFormed = p[2] == 0 && p[3] == 0 && p[8] == 0 && p[11] == 8 && p[16] == 1 && p[19] == 8 && p[24] == 2 && p[27] == 8
		if b.useProposal {
			b.rspAuth, b.rspInteg, b.rspConf = b.reqAuth, b.reqInteg, b.reqConf
		}
		r := []byte{tag, 0x00, b.reqPriv, 0x00}
		r = append(r, refPutLE32(b.sidM)...)
		r = append(r, refPutLE32(b.sidC)...)
		for i, alg := range []int{b.rspAuth, b.rspInteg, b.rspConf} {
			pl := refAlgPayload(byte(i), alg)
			if b.rspZeroLen&(1<<uint(i)) != 0 {
				pl[3], pl[4] = 0, 0
			}
			r = append(r, pl...)
		}
		return refSessionless(0x11, r)
	case 0x12: // RAKP Message 1
		if len(p) < 28 || len(p) != 28+int(p[27]) || p[27] > 16 {
			b.wellFormed = false
			return nil
		}
		b.rakp1Seen = true
		tag := p[0]
		b.wellFormed = refLE32(p[4:8]) == b.sidC && p[1] == 0 && p[2] == 0 && p[3] == 0 && p[25] == 0 && p[26] == 0
		b.rM = append([]byte{}, p[8:24]...)
		b.role = p[24]
		b.uname = append([]byte{}, p[28:]...)
		// AuthCode = HMAC_K[UID](SID_M, SID_C, R_M, R_C, GUID_C, Role_M, ULength_M, UName_M)
		m := append([]byte{}, refPutLE32(b.sidM)...)
		m = append(m, refPutLE32(b.sidC)...)
		m = append(m, b.rM...)
		m = append(m, b.rC...)
		m = append(m, b.guid...)
		m = append(m, b.userData()...)
		ac := refHMAC(b.hashAlg(), b.password, m)
		r := []byte{tag, 0x00, 0x00, 0x00}
		r = append(r, refPutLE32(b.sidM)...)
		r = append(r, b.rC...)
		r = append(r, b.guid...)
		r = append(r, ac...)
		return refSessionless(0x13, r)
	case 0x14: // RAKP Message 3
		if len(p) < 8 {
			b.wellFormed = false
			return nil
		}
		b.rakp3Seen = true
		tag := p[0]
		// AuthCode = HMAC_K[UID](R_C, SID_M, Role_M, ULength_M, UName_M)
		m := append([]byte{}, b.rC...)
		m = append(m, refPutLE32(b.sidM)...)
		m = append(m, b.userData()...)
		want := refHMAC(b.hashAlg(), b.password, m)
		b.rakp3OK = p[1] == 0 && refLE32(p[4:8]) == b.sidC && refBytesEq(p[8:], want)
		// SIK = HMAC_K[G](R_M, R_C, Role_M, ULength_M, UName_M)
		sm := append([]byte{}, b.rM...)
		sm = append(sm, b.rC...)
		sm = append(sm, b.userData()...)
		b.sik = refHMAC(b.hashAlg(), b.kgKey(), sm)
		b.k1 = refKn(b.reqAuth, b.sik, 1)
		b.k2 = refKn(b.reqAuth, b.sik, 2)
		// ICV = HMAC_SIK(R_M, SID_C, GUID_C), truncated for SHA1 (96 bits) and SHA256 (128 bits)
		im := append([]byte{}, b.rM...)
		im = append(im, refPutLE32(b.sidC)...)
		im = append(im, b.guid...)
		icv := refHMAC(b.hashAlg(), b.sik, im)
		switch b.reqAuth {
		case 1:
			icv = icv[:12]
		case 3:
			icv = icv[:16]
		}
		r := []byte{tag, 0x00, 0x00, 0x00}
		r = append(r, refPutLE32(b.sidM)...)
		r = append(r, icv...)
		return refSessionless(0x15, r)
	}
	b.wellFormed = false
	return nil
}

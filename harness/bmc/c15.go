package bmc

import (
	"context"
	"math"

	"github.com/gebn/bmc/pkg/ipmi"

	"github.com/google/gopacket"
)

// vReadingSession answers Get Sensor Reading with an arbitrary reading byte and flags.
type vReadingSession struct {
	Session
	reading, flags byte
	lunSeen        ipmi.LUN
	numberSeen     uint8
	calls          int
}

func (s *vReadingSession) SendCommand(ctx context.Context, c ipmi.Command) (ipmi.CompletionCode, error) {
	cmd := c.(*ipmi.GetSensorReadingCmd)
	s.calls++
	s.lunSeen, s.numberSeen = cmd.RemoteLUN(), cmd.Req.Number
	if err := cmd.Rsp.DecodeFromBytes([]byte{s.reading, s.flags, 0}, gopacket.NilDecodeFeedback); err != nil {
		return 0, err
	}
	return ipmi.CompletionCodeNormal, nil
}

// refLinearise is the specification's linearisation table (IPMI v2.0 table 43-1, byte 24):
// 0 linear, 1 ln, 2 log10, 3 log2, 4 e^x, 5 10^x, 6 2^x, 7 1/x, 8 x^2, 9 x^3, 10 sqrt, 11 cube root.
func refLinearise(code int, v float64) float64 {
	switch code {
	case 0:
		return v
	case 1:
		return math.Log(v)
	case 2:
		return math.Log10(v)
	case 3:
		return math.Log2(v)
	case 4:
		return math.Exp(v)
	case 5:
		return math.Pow(10, v)
	case 6:
		return math.Exp2(v)
	case 7:
		return math.Pow(v, -1)
	case 8:
		return math.Pow(v, 2)
	case 9:
		return math.Pow(v, 3)
	case 10:
		return math.Sqrt(v)
	case 11:
		return math.Pow(v, 1./3)
	}
	panic("not a linearisation function")
}

// C15 (a): a reader is built exactly for linearisation codes 0..11 with an analog data
// format 0..2; every other combination (non-linear 0x70, OEM 0x71-0x7f, reserved, "no
// analog readings") is refused with an error.
func VerifC15_ReaderConstruction() {
	r := &ipmi.FullSensorRecord{}
	r.Linearisation = ipmi.Linearisation(vByte())
	r.AnalogDataFormat = ipmi.AnalogDataFormat(vByte() & 3)
	reader, err := NewSensorReader(r)
	supported := r.Linearisation <= 11 && r.AnalogDataFormat <= 2
	if supported {
		vAssert(err == nil && reader != nil, "c15-reader-built-for-linear-and-linearised-analog-sensors")
		vReached("built")
	} else {
		vAssert(err != nil, "c15-reader-refused-for-non-linear-or-non-analog-sensors")
		vReached("refused")
	}
	vReached("end")
}

// C15 (b): for every raw byte, analog format, linearisation function, M, B (10-bit two's
// complement) and K1, K2 (4-bit two's complement, case split), Read returns
// L((M*x + B*10^K1) * 10^K2) evaluated in IEEE double in the specification's association,
// and the unavailable / scanning-disabled errors exactly when the BMC sets those flags.
func VerifC15_Read() {
	lin := vParam("lin", -1)
	if lin < 0 {
		lin = vChoice(12)
	}
	format := vParam("format", -1)
	if format < 0 {
		format = vChoice(3)
	}
	var k1, k2 int
	if vParam("allexp", 0) == 1 {
		k1, k2 = vChoice(16)-8, vChoice(16)-8
	} else {
		ks := []int{-8, -3, 0, 1, 7}
		k1, k2 = ks[vChoice(len(ks))], ks[vChoice(len(ks))]
	}
	mRaw, bRaw := vU16()&0x3ff, vU16()&0x3ff
	m, b := int(mRaw), int(bRaw)
	if m >= 512 {
		m -= 1024
	}
	if b >= 512 {
		b -= 1024
	}
	rec := &ipmi.FullSensorRecord{}
	rec.Linearisation = ipmi.Linearisation(lin)
	rec.AnalogDataFormat = ipmi.AnalogDataFormat(format)
	rec.Number = vByte()
	rec.OwnerLUN = ipmi.LUN(vByte() & 3)
	rec.ConversionFactors = ipmi.ConversionFactors{M: int16(m), B: int16(b), BExp: int8(k1), RExp: int8(k2)}
	reader, err := NewSensorReader(rec)
	vAssert(err == nil, "c15-reader-built")
	if err != nil {
		return
	}
	number, lun := rec.Number, rec.OwnerLUN
	if vBool() {
		// the caller reuses its record value (e.g. decodes the next SDR into it) before
		// reading: the reader was built for the record as it was at construction
		*rec = ipmi.FullSensorRecord{}
		rec.Number, rec.OwnerLUN = vByte(), ipmi.LUN(vByte()&3)
		rec.Linearisation = ipmi.Linearisation(vByte())
		rec.AnalogDataFormat = ipmi.AnalogDataFormat(vByte() & 3)
		rec.ConversionFactors = ipmi.ConversionFactors{M: int16(vU16()), B: int16(vU16()), BExp: int8(vByte()), RExp: int8(vByte())}
		vReached("?record-reused")
	}
	s := &vReadingSession{reading: vByte(), flags: vByte()}
	got, err := reader.Read(context.Background(), s)
	vAssert(s.calls == 1 && s.numberSeen == number && s.lunSeen == lun, "c15-reads-the-record's-sensor-at-its-owner-lun")
	unavailable := s.flags&(1<<5) != 0
	disabled := s.flags&(1<<6) == 0
	if unavailable || disabled {
		vAssert(err == ErrSensorReadingUnavailable || err == ErrSensorScanningDisabled, "c15-flagged-reading-is-an-error")
		if err == ErrSensorReadingUnavailable {
			vAssert(unavailable, "c15-unavailable-error-only-with-the-unavailable-flag")
		}
		if err == ErrSensorScanningDisabled {
			vAssert(disabled, "c15-disabled-error-only-with-scanning-disabled")
		}
		vReached("?flagged")
		return
	}
	vAssert(err == nil, "c15-unflagged-reading-is-returned")
	if err != nil {
		return
	}
	// x: the raw byte in the record's analog data format (0 unsigned, 1 one's complement,
	// 2 two's complement). The three interpretations themselves are decided against their
	// mathematical definitions by C20; here the format code must select the right one.
	var x int16
	switch format {
	case 0:
		x = vParse(ipmi.AnalogDataFormatUnsigned, s.reading)
	case 1:
		x = vParse(ipmi.AnalogDataFormatOnesComplement, s.reading)
	case 2:
		x = vParse(ipmi.AnalogDataFormatTwosComplement, s.reading)
	}
	want := refLinearise(lin, (float64(int64(int16(m))*int64(x))+float64(int16(b))*math.Pow10(k1))*math.Pow10(k2))
	vAssert(vSameFloat(got, want), "c15-reading-is-L((Mx+B*10^K1)*10^K2)")
	vReached("end")
}

func vParse(f ipmi.AnalogDataFormat, r byte) int16 {
	p, err := f.Parser()
	if err != nil {
		panic(err)
	}
	return p.Parse(r)
}

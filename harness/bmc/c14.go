package bmc

import (
	"context"

	"github.com/gebn/bmc/pkg/ipmi"

	"github.com/google/gopacket"
)

// refRecord is one SDR as the reference repository stores it.
type refRecord struct {
	id   uint16
	typ  byte
	body []byte // record key and body bytes (everything after the 5-byte header)
}

func (r *refRecord) bytes() []byte {
	h := []byte{byte(r.id), byte(r.id >> 8), 0x51, r.typ, byte(len(r.body))}
	return append(h, r.body...)
}

// refSDRRepo is a reference SDR repository device (IPMI v2.0 33.9-33.12): reservation,
// partial reads through Get SDR, next-record chaining, addition/erase timestamps.
type refSDRRepo struct {
	Session
	records     []refRecord
	reservation uint16
	lastAdd     uint32
	lastErase   uint32
	getSDRs     int
	// modification injected before the changeAt-th Get SDR request (1-based; 0 = never)
	changeAt   int
	newRecords []refRecord
	changed    bool
	// how the modification shows: which timestamp advances, whether the reservation is cancelled
	bumpErase         bool
	bumpNone          bool // neither timestamp advances (they have one-second resolution)
	cancelReservation bool
}

func (b *refSDRRepo) GetSDRRepositoryInfo(ctx context.Context) (*ipmi.GetSDRRepositoryInfoRsp, error) {
	// the response as the device puts it on the wire (33.9), through the library's decoder
	n := uint16(len(b.records))
	d := []byte{0x51, byte(n), byte(n >> 8), 0xff, 0xff}
	d = append(d, refPutLE32(b.lastAdd)...)
	d = append(d, refPutLE32(b.lastErase)...)
	d = append(d, 0x00)
	rsp := &ipmi.GetSDRRepositoryInfoRsp{}
	if err := rsp.DecodeFromBytes(d[:len(d):len(d)], gopacket.NilDecodeFeedback); err != nil {
		return nil, err
	}
	return rsp, nil
}

func (b *refSDRRepo) ReserveSDRRepository(ctx context.Context) (*ipmi.ReserveSDRRepositoryRsp, error) {
	b.reservation++
	return &ipmi.ReserveSDRRepositoryRsp{ReservationID: ipmi.ReservationID(b.reservation)}, nil
}

func (b *refSDRRepo) SendCommand(ctx context.Context, c ipmi.Command) (ipmi.CompletionCode, error) {
	cmd := c.(*ipmi.GetSDRCmd)
	b.getSDRs++
	if b.changeAt != 0 && b.getSDRs == b.changeAt && !b.changed {
		// the repository is modified: records replaced, addition timestamp advances,
		// outstanding reservations are cancelled
		b.changed = true
		b.records = b.newRecords
		if b.bumpNone {
			// only the reservation tells
		} else if b.bumpErase {
			b.lastErase++
		} else {
			b.lastAdd++
		}
		if b.cancelReservation {
			b.reservation += 7
		}
	}
	// 33.12: the reservation is required for partial reads with a non-zero offset; 0000h
	// may be used otherwise. A reservation ID that is given is checked.
	if (cmd.Req.Offset != 0 || cmd.Req.ReservationID != 0) && uint16(cmd.Req.ReservationID) != b.reservation {
		return ipmi.CompletionCodeReservationCanceledOrInvalid, nil
	}
	idx := -1
	if cmd.Req.RecordID == 0 {
		idx = 0
	} else {
		for i := range b.records {
			if b.records[i].id == uint16(cmd.Req.RecordID) {
				idx = i
				break
			}
		}
	}
	if idx < 0 || idx >= len(b.records) {
		return ipmi.CompletionCode(0xCB), nil // requested record not present
	}
	rec := b.records[idx].bytes()
	next := uint16(0xFFFF)
	if idx+1 < len(b.records) {
		next = b.records[idx+1].id
	}
	lo := int(cmd.Req.Offset)
	hi := lo + int(cmd.Req.Length)
	if lo > len(rec) {
		lo = len(rec)
	}
	if hi > len(rec) {
		hi = len(rec)
	}
	data := append([]byte{byte(next), byte(next >> 8)}, rec[lo:hi]...)
	if err := cmd.Rsp.DecodeFromBytes(data[:len(data):len(data)], gopacket.NilDecodeFeedback); err != nil {
		return 0, err
	}
	return ipmi.CompletionCodeNormal, nil
}

// vRecords draws n records with arbitrary distinct IDs (never 0xFFFF), arbitrary type
// (full sensor record or anything else) and, for full sensor records, an arbitrary body of
// 43 bytes plus an ID string chosen from: empty 8-bit, 2-character 8-bit, 3-character
// packed 6-bit, 3-digit BCD plus, 16-character 8-bit followed by 5 further bytes (record
// length 64, the most the library accepts).
func vRecords(n int, firstZero bool) []refRecord {
	recs := make([]refRecord, n)
	for i := range recs {
		id := vU16()
		vAssume(id != 0xFFFF)
		if i == 0 && firstZero {
			vAssume(id == 0)
		} else {
			vAssume(id != 0)
		}
		for j := 0; j < i; j++ {
			vAssume(id != recs[j].id)
		}
		recs[i].id = id
		if vBool() {
			recs[i].typ = 0x01
			body := vBytes(42)
			var tail []byte
			switch vChoice(vParam("idshapes", 5)) {
			case 4:
				// the longest record the library accepts: a 16-character 8-bit ID string
				// followed by OEM bytes up to a record length of 64
				tail = append(append([]byte{0xD0}, vBytes(16)...), vBytes(5)...)
			case 0:
				tail = []byte{0xC0}
			case 1:
				tail = append([]byte{0xC2}, vBytes(2)...)
			case 2:
				tail = append([]byte{0x83}, vBytes(3)...)
			case 3:
				tail = append([]byte{0x43}, vBytes(2)...)
			}
			recs[i].body = append(body, tail...)
		} else {
			t := vByte()
			vAssume(t != 0x01)
			recs[i].typ = t
			recs[i].body = vBytes(3)
		}
	}
	return recs
}

// vCheckRepo asserts that got holds exactly the full sensor records of recs, each under
// its own record ID, with the field values of the reference decoding.
func vCheckRepo(got SDRRepository, recs []refRecord) {
	want := 0
	for i := range recs {
		if recs[i].typ != 0x01 {
			_, present := got[ipmi.RecordID(recs[i].id)]
			vAssert(!present, "c14-only-full-sensor-records-are-returned")
			continue
		}
		want++
		fsr, ok := got[ipmi.RecordID(recs[i].id)]
		vAssert(ok, "c14-every-full-sensor-record-is-returned-under-its-own-id")
		if ok {
			var ref ipmi.FullSensorRecord
			err := ref.DecodeFromBytes(recs[i].body, gopacket.NilDecodeFeedback)
			vAssert(err == nil, "c14-reference-decoding-accepts-the-record")
			vAssert(vSameFields(fsr, &ref, "BaseLayer"), "c14-record-fields-equal-the-reference-decoding")
		}
	}
	vAssert(len(got) == want, "c14-no-record-twice-and-none-invented")
}

// C14 (walk): one walk over a repository of 1..R arbitrary records.
func VerifC14_Walk() {
	n := vLen(1, vParam("maxrecords", 2))
	recs := vRecords(n, vBool())
	b := &refSDRRepo{records: recs, reservation: vU16(), lastAdd: vU32(), lastErase: vU32()}
	got, err := RetrieveSDRRepository(context.Background(), b)
	vAssert(err == nil, "c14-walk-succeeds")
	if err == nil {
		vCheckRepo(got, recs)
	}
	vReached("end")
}

// C14 (consistency): the repository is replaced by another one (timestamp advanced,
// reservation cancelled) before the k-th Get SDR request of the retrieval; the result must be
// exactly the second repository's content.
func VerifC14_Modified() {
	n1 := vLen(1, vParam("maxrecords", 2))
	recs1 := vRecords(n1, false)
	n2 := vLen(1, vParam("maxrecords", 2))
	recs2 := vRecords(n2, false)
	b := &refSDRRepo{records: recs1, reservation: vU16(), lastAdd: vU32(), lastErase: vU32(), newRecords: recs2}
	switch vChoice(4) {
	case 0:
		b.cancelReservation = true
	case 1:
		b.bumpErase, b.cancelReservation = true, true
	case 2:
		// the modification falls into the same second as the previous one: neither
		// timestamp moves, only the reservation is cancelled
		b.bumpNone, b.cancelReservation = true, true
	case 3:
		b.bumpErase = vBool() // a BMC that keeps the reservation valid
	}
	// the timestamp that advances may reach 0xFFFFFFFF ("unspecified" in some tables)
	vAssume(b.lastAdd < 0xffffffff)
	vAssume(b.lastErase < 0xffffffff)
	vAssume(b.reservation < 0xff00)
	b.changeAt = 1 + vChoice(2*n1+1) // before any Get SDR of the first walk, or just after it
	ctx, cancel := context.WithCancel(context.Background())
	_ = cancel
	got, err := RetrieveSDRRepository(ctx, b)
	vAssert(err == nil, "c14-retrieval-succeeds-after-a-modification")
	if err == nil {
		if b.changed {
			vCheckRepo(got, recs2)
			vReached("?modified")
		} else {
			vCheckRepo(got, recs1)
			vReached("?unmodified")
		}
	}
	vReached("end")
}

// vSessionRepoBMC serves the SDR repository commands over a real established session:
// it opens each datagram the way a BMC does (reference decryption), dispatches on
// NetFn/command and answers authenticated and encrypted.
type vSessionRepoBMC struct {
	vs   *vSession
	repo *refSDRRepo
	ivs  [][]byte
	n    int
}

func (b *vSessionRepoBMC) reply(attempt int, req []byte) ([]byte, error) {
	_, macLen := refIntegrityHash(b.vs.integ)
	l := refLE16(req[14:16])
	conf := req[16 : 16+l]
	pt := refAESCBC(false, b.vs.k2[:16], conf[:16], conf[16:])
	p := int(pt[len(pt)-1])
	m := refParseMsg(pt[:len(pt)-1-p])
	_ = macLen
	var data []byte
	switch {
	case m.netFn == 0x0a && m.cmd == 0x20: // Get SDR Repository Info
		data = []byte{0x00, 0x51, byte(len(b.repo.records)), 0, 0xff, 0xff}
		data = append(data, refPutLE32(b.repo.lastAdd)...)
		data = append(data, refPutLE32(b.repo.lastErase)...)
		data = append(data, 0x02)
	case m.netFn == 0x0a && m.cmd == 0x22: // Reserve SDR Repository
		b.repo.reservation++
		data = []byte{0x00, byte(b.repo.reservation), byte(b.repo.reservation >> 8)}
	case m.netFn == 0x0a && m.cmd == 0x23: // Get SDR
		cmd := &ipmi.GetSDRCmd{Req: ipmi.GetSDRReq{ReservationID: ipmi.ReservationID(refLE16(m.data[0:2])), RecordID: ipmi.RecordID(refLE16(m.data[2:4])), Offset: m.data[4], Length: m.data[5]}}
		cc, _ := b.repo.SendCommand(context.Background(), cmd)
		data = []byte{byte(cc)}
		if cc == 0 {
			data = append(data, byte(cmd.Rsp.Next), byte(cmd.Rsp.Next>>8))
			data = append(data, cmd.Rsp.Payload...)
		}
	default:
		return nil, vErrLost
	}
	msg := refBuildMsg(0x81, m.netFn|1, 0, 0x20, 1, 0, m.cmd, data)
	iv := b.ivs[b.n%len(b.ivs)]
	b.n++
	return refSessionPacket(b.vs.sess.LocalID, uint32(b.n), b.vs.integ, b.vs.k1, b.vs.k2, iv, msg), nil
}

// C14 (through a real session): RetrieveSDRRepository over an established V2Session
// against the reference repository device; the repository is replaced before the k-th
// Get SDR request with only a timestamp advancing (the reservation stays valid), so the
// modification is visible only through the before/after repository-info comparison.
func VerifC14_OverSession() {
	vs := vNewSession(1, 1)
	vAssume(vs.sess.AuthenticatedSequenceNumbers.Inbound < 0xffffff00)
	recs1 := vRecords(1, false)
	recs2 := vRecords(1, false)
	repo := &refSDRRepo{records: recs1, reservation: vU16(), lastAdd: vU32(), lastErase: vU32(), newRecords: recs2}
	vAssume(repo.lastAdd < 0xffffffff)
	vAssume(repo.lastErase < 0xffffffff)
	vAssume(repo.reservation < 0xff00)
	repo.bumpErase = vBool()
	repo.changeAt = vChoice(4) // 0: never; 1..3: before that Get SDR request
	bmc := &vSessionRepoBMC{vs: vs, repo: repo, ivs: [][]byte{vBytes(16), vBytes(16), vBytes(16)}}
	vs.ft.reply = bmc.reply
	got, err := RetrieveSDRRepository(context.Background(), vs.sess)
	vAssert(err == nil, "c14-retrieval-over-a-session-succeeds")
	if err == nil {
		if repo.changed {
			vCheckRepo(got, recs2)
			vReached("?modified")
		} else {
			vCheckRepo(got, recs1)
			vReached("?unmodified")
		}
	}
	vReached("end")
}

package bmc

import (
	"context"

	"github.com/gebn/bmc/pkg/iana"
	"github.com/gebn/bmc/pkg/ipmi"
)

// ---- reference parser for Cipher Suite Record data (IPMI v2.0 22.15.1, table 22-18) ----
//
// record := start id [iana(3)] auth integ* conf*
//   start = 0xC0 (standard) | 0xC1 (OEM); algorithm bytes carry their kind in the top
//   two bits: 00 authentication, 01 integrity, 10 confidentiality.
// A record listing several integrity and/or confidentiality algorithms stands for every
// combination; an absent list stands for "None".

type refSuite struct {
	id, auth, integ, conf byte
	oem                   uint32
}

func refParseSuites(d []byte) (out []refSuite, ok bool) {
	i := 0
	for i < len(d) {
		if d[i] != 0xC0 && d[i] != 0xC1 {
			return nil, false
		}
		oem := d[i] == 0xC1
		need := 3
		if oem {
			need = 6
		}
		if len(d)-i < need {
			return nil, false
		}
		var r refSuite
		r.id = d[i+1]
		j := i + 2
		if oem {
			r.oem = uint32(d[j]) | uint32(d[j+1])<<8 | uint32(d[j+2])<<16
			j += 3
		}
		if d[j]&0xC0 != 0x00 {
			return nil, false
		}
		r.auth = d[j]
		j++
		var integs, confs []byte
		for j < len(d) && d[j]&0xC0 == 0x40 {
			integs = append(integs, d[j]&0x3f)
			j++
		}
		for j < len(d) && d[j]&0xC0 == 0x80 {
			confs = append(confs, d[j]&0x3f)
			j++
		}
		if len(integs) == 0 {
			integs = []byte{0}
		}
		if len(confs) == 0 {
			confs = []byte{0}
		}
		for _, a := range integs {
			for _, c := range confs {
				x := r
				x.integ, x.conf = a, c
				out = append(out, x)
			}
		}
		i = j
	}
	return out, true
}

func vSameSuites(got []ipmi.CipherSuiteRecord, want []refSuite) bool {
	if len(got) != len(want) {
		return false
	}
	var diff uint32
	for i := range got {
		diff |= uint32(byte(got[i].CipherSuiteID) ^ want[i].id)
		diff |= uint32(byte(got[i].AuthenticationAlgorithm) ^ want[i].auth)
		diff |= uint32(byte(got[i].IntegrityAlgorithm) ^ want[i].integ)
		diff |= uint32(byte(got[i].ConfidentialityAlgorithm) ^ want[i].conf)
		diff |= uint32(got[i].Enterprise) ^ want[i].oem
	}
	return diff == 0
}

// C16 (a): the record parser agrees with the reference on every byte string of length
// 0..N: same accept/reject verdict, and on acceptance the same expanded list in the same
// order; on rejection no partial list.
func VerifC16_ParseRecords() {
	n := vLen(0, vParam("maxlen", 9))
	d := vBytes(n)
	got, err := parseCipherSuiteRecordData(d)
	want, ok := refParseSuites(d)
	if ok {
		vAssert(err == nil, "c16-parser-accepts-what-the-reference-accepts")
		if err == nil {
			vAssert(vSameSuites(got, want), "c16-parser-yields-the-reference-list-in-order")
		}
		vReached("accepted")
	} else {
		vAssert(err != nil, "c16-parser-rejects-what-the-reference-rejects")
		vAssert(len(got) == 0, "c16-no-partial-list-with-an-error")
		vReached("rejected")
	}
	vReached("end")
}

// refSuiteBMC serves Get Channel Cipher Suites from a record buffer in 16-byte chunks.
type refSuiteBMC struct {
	data     []byte
	requests int
	indexOK  bool
}

func (b *refSuiteBMC) handle(req []byte) []byte {
	m := refParseMsg(req[16:])
	ok := m.ok && m.netFn == 0x06 && m.cmd == 0x54 && len(m.data) == 3 && m.data[0] == 0x0e && m.data[1] == 0x00 &&
		m.data[2] == 0x80|byte(b.requests)
	if b.requests == 0 {
		b.indexOK = ok
	} else {
		b.indexOK = b.indexOK && ok
	}
	lo := 16 * b.requests
	hi := lo + 16
	if lo > len(b.data) {
		lo = len(b.data)
	}
	if hi > len(b.data) {
		hi = len(b.data)
	}
	b.requests++
	body := append([]byte{0x00, 0x0e}, b.data[lo:hi]...)
	return refSessionless(0x00, refBuildMsg(0x81, 0x07, 0, 0x20, 1, 0, 0x54, body))
}

// vSuiteRecords builds k well-formed records with arbitrary IDs and algorithm numbers;
// shape[i]: 0 = standard with one integrity and one confidentiality algorithm (5 bytes),
// 1 = OEM likewise (8 bytes), 2 = standard with two integrity algorithms and no
// confidentiality algorithm (5 bytes), 3 = standard with authentication only (3 bytes),
// 4 = standard with one integrity and two confidentiality algorithms (6 bytes).
func vSuiteRecords(shapes []int) []byte {
	var d []byte
	for _, s := range shapes {
		id := vByte()
		switch s {
		case 0:
			d = append(d, 0xC0, id, vByte()&0x3f, 0x40|vByte()&0x3f, 0x80|vByte()&0x3f)
		case 1:
			d = append(d, 0xC1, id, vByte(), vByte(), vByte(), vByte()&0x3f, 0x40|vByte()&0x3f, 0x80|vByte()&0x3f)
		case 2:
			d = append(d, 0xC0, id, vByte()&0x3f, 0x40|vByte()&0x3f, 0x40|vByte()&0x3f)
		case 3:
			d = append(d, 0xC0, id, vByte()&0x3f)
		case 4:
			d = append(d, 0xC0, id, vByte()&0x3f, 0x40|vByte()&0x3f, 0x80|vByte()&0x3f, 0x80|vByte()&0x3f)
		}
	}
	return d
}

var vShapeSets = [][]int{
	{},                    // 0 bytes: one request, empty list
	{0},                   // 5
	{1, 1},                // 16: exact multiple, one extra request
	{0, 2, 0, 3},          // 18: two chunks, a record split across them
	{1, 1, 1, 1},          // 32: exact multiple of two chunks
	{1, 0, 0, 3, 2},       // 26
	{0, 0, 0, 0, 0, 0, 0}, // 35: three chunks
}

// C16 (b): discovery retrieves the record data in 16-byte chunks with list index
// 0,1,2,..., stops after the first short chunk (an exact multiple of 16 costs one more
// request), and returns exactly the reference expansion of the concatenated data.
func VerifC16_RetrieveSuites() {
	ft := &vFakeTransport{}
	s := vNewSessionless(ft)
	shapes := vShapeSets[vChoice(vParam("shapesets", len(vShapeSets)))]
	bmc := &refSuiteBMC{data: vSuiteRecords(shapes)}
	ft.reply = func(attempt int, req []byte) ([]byte, error) { return bmc.handle(req), nil }
	got, err := RetrieveSupportedCipherSuites(context.Background(), s)
	want, ok := refParseSuites(bmc.data)
	vAssert(ok, "c16-harness-data-well-formed")
	vAssert(err == nil, "c16-discovery-succeeds-on-well-formed-data")
	vAssert(bmc.requests == len(bmc.data)/16+1, "c16-one-request-per-chunk-plus-one-after-a-full-last-chunk")
	vAssert(bmc.indexOK, "c16-list-index-counts-up-from-zero")
	if err == nil {
		vAssert(vSameSuites(got, want), "c16-discovery-returns-the-reference-expansion")
	}
	vReached("end")
}

var _ = iana.Enterprise(0)

// C16 (termination): a BMC that never sends a short chunk. The list index is a 6-bit
// field, so discovery must stop by itself after at most 64 requests (with a list or an
// error), whatever the BMC does; the chunk is an arbitrary 16 bytes (not starting a record) repeated.
func VerifC16_DiscoveryTerminates() {
	ft := &vFakeTransport{}
	s := vNewSessionless(ft)
	chunk := vBytes(16)
	// the request loop does not look at the content; keep the final parse short (what the
	// parser does with arbitrary data is VerifC16_ParseRecords' subject)
	vAssume(chunk[0]>>1 != 0x60)
	requests := 0
	ft.reply = func(attempt int, req []byte) ([]byte, error) {
		requests++
		vAssert(requests <= 64, "c16-discovery-stops-by-itself-after-at-most-64-requests")
		if requests > 64 {
			vEnd()
		}
		body := append([]byte{0x00, 0x0e}, chunk...)
		return refSessionless(0x00, refBuildMsg(0x81, 0x07, 0, 0x20, 1, 0, 0x54, body)), nil
	}
	_, err := RetrieveSupportedCipherSuites(context.Background(), s)
	vAssert(requests == 64, "?c16-all-64-list-indices-are-tried")
	if err != nil {
		vReached("?error")
	} else {
		vReached("?list")
	}
	vReached("end")
}

// C16 (longest lists): the list index is a 6-bit field, so a BMC can advertise up to
// 64 chunks = 1024 bytes of record data. Lists of 1019 bytes (63 full chunks and a short
// one) and of exactly 1024 bytes (64 full chunks: there is no further index to ask for)
// must come back as the reference expansion after 64 requests with indices 0..63.
func VerifC16_LongList() {
	ft := &vFakeTransport{}
	s := vNewSessionless(ft)
	std := []int{202, 203}[vChoice(2)] // 5-byte records; three 3-byte records follow
	var data []byte
	for i := 0; i < std; i++ {
		if i < 2 || i >= std-2 {
			data = append(data, 0xC0, vByte(), vByte()&0x3f, 0x40|vByte()&0x3f, 0x80|vByte()&0x3f)
		} else {
			data = append(data, 0xC0, byte(i), 0x01, 0x41, 0x81)
		}
	}
	for i := 0; i < 3; i++ {
		data = append(data, 0xC0, vByte(), vByte()&0x3f)
	}
	bmc := &refSuiteBMC{data: data}
	beyond := false
	ft.reply = func(attempt int, req []byte) ([]byte, error) {
		if bmc.requests >= 64 {
			beyond = true
			// a real BMC sees list index 0 again (the field is 6 bits wide)
			r := &refSuiteBMC{data: data}
			return r.handleIndex(req, 0), nil
		}
		return bmc.handle(req), nil
	}
	got, err := RetrieveSupportedCipherSuites(context.Background(), s)
	want, ok := refParseSuites(data)
	vAssert(ok, "c16-harness-data-well-formed")
	vAssert(err == nil, "c16-discovery-succeeds-on-well-formed-data")
	vAssert(bmc.indexOK, "c16-list-index-counts-up-from-zero")
	if err == nil {
		vAssert(vSameSuites(got, want), "c16-discovery-returns-the-reference-expansion")
	}
	vAssert(!beyond, "c16-no-request-beyond-list-index-63")
	vReached("end")
}

// handleIndex serves the chunk at the given list index without checking the request's index.
func (b *refSuiteBMC) handleIndex(req []byte, idx int) []byte {
	lo := 16 * idx
	hi := lo + 16
	if lo > len(b.data) {
		lo = len(b.data)
	}
	if hi > len(b.data) {
		hi = len(b.data)
	}
	body := append([]byte{0x00, 0x0e}, b.data[lo:hi]...)
	return refSessionless(0x00, refBuildMsg(0x81, 0x07, 0, 0x20, 1, 0, 0x54, body))
}

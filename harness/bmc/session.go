package bmc

import (
	"crypto/hmac"
	"time"

	"github.com/cenkalti/backoff/v4"
	"github.com/gebn/bmc/internal/pkg/transport"

	"github.com/gebn/bmc/pkg/ipmi"

	"github.com/google/gopacket"
)

// vSession is an established session constructed directly (no handshake), together
// with the key material the reference side needs.
type vSession struct {
	ft    *vFakeTransport
	sess  *V2Session
	auth  int
	integ int
	sik   []byte
	k1    []byte
	k2    []byte
}

// vNewSession builds a V2Session the way newV2Session does after a successful RAKP
// exchange: the integrity hash and the confidentiality layer come from the library's
// own algorithmHasher / algorithmCipher, keyed from an arbitrary SIK; session IDs and
// the sequence-number pre-state are arbitrary.
func vNewSession(auth, integ int) *vSession {
	ft := &vFakeTransport{}
	return vNewSessionOn(ft, ft, auth, integ)
}

// vNewSessionOn builds the session on any transport (ft, if not nil, is the recording
// fake behind it).
func vNewSessionOn(t transport.Transport, ft *vFakeTransport, auth, integ int) *vSession {
	slt := newV2SessionlessTransport(t, &dialConfig{timeout: time.Second})
	slt.backoff = &backoff.ZeroBackOff{}
	_, sz := refAuthHash(auth)
	sik := vBytes(sz)
	params, err := algorithmAuthenticationHashGenerator(ipmi.AuthenticationAlgorithm(auth))
	vAssume(err == nil)
	gen := additionalKeyMaterialGenerator{hash: params.K(sik)}
	hasher, err := algorithmHasher(ipmi.IntegrityAlgorithm(integ), gen)
	vAssume(err == nil)
	cipherLayer, err := algorithmCipher(ipmi.ConfidentialityAlgorithmAESCBC128, gen)
	vAssume(err == nil)
	sess := &V2Session{
		v2ConnectionShared:             &slt.v2ConnectionShared,
		LocalID:                        vU32(),
		RemoteID:                       vU32(),
		SIK:                            sik,
		AuthenticationAlgorithm:        ipmi.AuthenticationAlgorithm(auth),
		IntegrityAlgorithm:             ipmi.IntegrityAlgorithm(integ),
		ConfidentialityAlgorithm:       ipmi.ConfidentialityAlgorithmAESCBC128,
		AdditionalKeyMaterialGenerator: gen,
		integrityAlgorithm:             hasher,
		confidentialityLayer:           cipherLayer,
		timeout:                        time.Second,
	}
	sess.AuthenticatedSequenceNumbers.Inbound = vU32()
	dlc := gopacket.DecodingLayerContainer(gopacket.DecodingLayerArray(nil))
	dlc = dlc.Put(&sess.rmcpLayer)
	dlc = dlc.Put(&sess.sessionSelectorLayer)
	dlc = dlc.Put(&sess.v2SessionLayer)
	dlc = dlc.Put(cipherLayer)
	dlc = dlc.Put(&sess.messageLayer)
	sess.decode = dlc.LayersDecoder(sess.rmcpLayer.LayerType(), gopacket.NilDecodeFeedback)
	return &vSession{ft: ft, sess: sess, auth: auth, integ: integ, sik: sik,
		k1: refKn(auth, sik, 1), k2: refKn(auth, sik, 2)}
}

var _ = hmac.Equal

// vWireInteg maps a choice 0..2 to the wire number of a supported integrity algorithm.
func vWireInteg(c int) int { return []int{1, 2, 4}[c] }

// vSuite picks the authentication and integrity algorithms: with parameter suites=9
// every combination, otherwise the three like-with-like pairings (SHA1/SHA1-96 as in
// cipher suite 3, MD5/MD5-128 as in suite 8, SHA256/SHA256-128 as in suite 17).
func vSuite() (auth, integ int) {
	if vParam("suites", 3) == 9 {
		return 1 + vChoice(3), vWireInteg(vChoice(3))
	}
	if vParam("suites", 3) == 1 {
		return 1, 1
	}
	if vParam("suites", 3) == 5 {
		// the three like-with-like pairings plus two mixed ones (keys longer / shorter than
		// the integrity hash's natural key size)
		c := vChoice(5)
		return []int{1, 2, 3, 1, 3}[c], []int{1, 2, 4, 2, 1}[c]
	}
	c := vChoice(3)
	return 1 + c, vWireInteg(c)
}

package bmc

import (
	"github.com/prometheus/client_golang/prometheus"
	dto "github.com/prometheus/client_model/go"
)

// vMetric returns the sum over all label values of the named counter or gauge
// (engine: ghost counters kept by the prometheus stub; native: the default registry).
func vMetric(name string) int {
	return vMetricSum(name, "")
}

// vMetricL returns the value of the series of the named metric whose (single) label
// has the given value.
func vMetricL(name string, label string) int {
	return vMetricSum(name, label)
}

func vMetricSum(name, label string) int {
	mfs, err := prometheus.DefaultGatherer.Gather()
	if err != nil {
		panic(err)
	}
	total := 0.0
	for _, mf := range mfs {
		if mf.GetName() != name {
			continue
		}
		for _, m := range mf.GetMetric() {
			if label != "" {
				match := false
				for _, lp := range m.GetLabel() {
					if lp.GetValue() == label {
						match = true
					}
				}
				if !match {
					continue
				}
			}
			switch mf.GetType() {
			case dto.MetricType_COUNTER:
				total += m.GetCounter().GetValue()
			case dto.MetricType_GAUGE:
				total += m.GetGauge().GetValue()
			}
		}
	}
	return int(total)
}

package main

// Intrinsics: the v* harness API, and stubs for the environment (crypto primitives,
// randomness, formatting, metrics, back-off, context, time).

import (
	"fmt"
	"go/types"
	"os"
	"strings"

	"golang.org/x/tools/go/ssa"
)

// StubObject is implemented by engine-side objects that stand for library objects.
type StubObject interface {
	Invoke(ex *Exec, fr *frame, method string, args []Value) Value
	HasMethod(name string) bool
}

// ---- footprints (C19): which memory cells an operation reads and writes ----

type footprint struct {
	reads, writes map[interface{}]string // cell (or *Map) -> where it was first accessed
}

func newFootprint() *footprint {
	return &footprint{reads: map[interface{}]string{}, writes: map[interface{}]string{}}
}

// leaves enumerates the scalar cells under a cell (aggregates are stored in place).
func leaves(p *Value, f func(*Value)) {
	switch v := (*p).(type) {
	case Struct:
		for i := range v {
			leaves(&v[i], f)
		}
	case Array:
		for i := range v {
			leaves(&v[i], f)
		}
	default:
		f(p)
	}
}

func (ex *Exec) noteRead(p *Value) {
	if ex.fp == nil || p == nil {
		return
	}
	leaves(p, func(l *Value) {
		if _, ok := ex.fp.reads[l]; !ok {
			ex.fp.reads[l] = ex.where
		}
	})
}

func (ex *Exec) noteWrite(p *Value) {
	if ex.fp == nil || p == nil {
		return
	}
	leaves(p, func(l *Value) {
		if _, ok := ex.fp.writes[l]; !ok {
			ex.fp.writes[l] = ex.where
		}
	})
}

func (ex *Exec) noteMap(m *Map, write bool) {
	if ex.fp == nil || m == nil {
		return
	}
	if write {
		if _, ok := ex.fp.writes[m]; !ok {
			ex.fp.writes[m] = ex.where
		}
	} else if _, ok := ex.fp.reads[m]; !ok {
		ex.fp.reads[m] = ex.where
	}
}

func (ex *Exec) noteSlice(s Slice, write bool) {
	if ex.fp == nil {
		return
	}
	for i := range s.data {
		if write {
			ex.noteWrite(&s.data[i])
		} else {
			ex.noteRead(&s.data[i])
		}
	}
}

// conflicts returns a description of the first cell written by one footprint and
// accessed by the other, or "".
func conflicts(a, b *footprint) string {
	for c, wa := range a.writes {
		if wb, ok := b.writes[c]; ok {
			return "written at " + wa + " and at " + wb
		}
		if rb, ok := b.reads[c]; ok {
			return "written at " + wa + " and read at " + rb
		}
	}
	for c, wb := range b.writes {
		if ra, ok := a.reads[c]; ok {
			return "read at " + ra + " and written at " + wb
		}
	}
	return ""
}

func term(v Value) *Term { return v.(*Term) }

func (ex *Exec) concInt(v Value, what string) int {
	t := ex.tt.Resize(v.(*Term), 64, true)
	return int(int64(ex.concretize(t, what)))
}

func (ex *Exec) concStr(v Value, what string) string {
	switch s := v.(type) {
	case string:
		return s
	case *OpaqueStr:
		return "<" + s.format + ">"
	}
	ex.unsupported("symbolic string where a concrete one is required: " + what)
	return ""
}

func (ex *Exec) byteSlice(ts []*Term) Slice {
	data := make([]Value, len(ts))
	for i, t := range ts {
		data[i] = t
	}
	return Slice{data: data}
}

func (ex *Exec) sliceTerms(v Value) []*Term {
	s := v.(Slice)
	ex.noteSlice(s, false)
	out := make([]*Term, len(s.data))
	for i, e := range s.data {
		out[i] = e.(*Term)
	}
	return out
}

func (ex *Exec) mkError(format string, args []Value) Value {
	p := new(Value)
	*p = Struct{&OpaqueStr{format: format, args: args}}
	return Iface{t: ex.eng.errString, v: p}
}

func nilErr() Value { return Iface{} }

func variadic(v Value) []Value {
	if s, ok := v.(Slice); ok {
		return s.data
	}
	return nil
}

// intrinsic dispatches calls that the engine implements itself.
func (ex *Exec) intrinsic(fr *frame, fn *ssa.Function, args []Value) (Value, bool) {
	ex.curFrame = fr
	if fn.Synthetic == "package initializer" {
		if fn.Pkg != nil && ex.eng.eager[fn.Pkg] {
			if ex.pkgInitStarted[fn.Pkg] {
				return nil, true
			}
			ex.pkgInitStarted[fn.Pkg] = true
			return nil, false // run it
		}
		return nil, true // non-repo packages are initialised lazily per global
	}
	name := fn.Name()
	if fn.Pkg != nil && ex.eng.eager[fn.Pkg] && len(name) > 1 && (name[0] == 'v' || strings.HasPrefix(name, "ref")) && fn.Signature.Recv() == nil {
		if r, ok := ex.harnessAPI(fr, name, args); ok {
			return r, true
		}
	}
	full := fn.String()
	if h, ok := stubTable[full]; ok {
		if r := h(ex, fr, args); r != Value(fallThrough) {
			return r, true
		}
	}
	if fn.Pkg != nil {
		pp := fn.Pkg.Pkg.Path()
		if strings.HasPrefix(pp, "github.com/prometheus/client_golang/") {
			return ex.promCall(fr, fn, args), true
		}
	} else if recv := fn.Signature.Recv(); recv != nil {
		// wrapper/thunk of a prometheus method
		if strings.Contains(recv.Type().String(), "github.com/prometheus/client_golang/") {
			return ex.promCall(fr, fn, args), true
		}
	}
	return nil, false
}

// fallThrough is returned by a conditional stub that wants the real body executed.
var fallThrough = &StubFunc{name: "fallthrough"}

func registerLibStubs() {
	// bytealg.MakeNoZero(n): a byte slice whose content the caller overwrites
	stubTable["internal/bytealg.MakeNoZero"] = func(ex *Exec, fr *frame, args []Value) Value {
		n := ex.concInt(args[0], "MakeNoZero length")
		ts := make([]*Term, n)
		for i := range ts {
			ts[i] = ex.tt.BV(8, 0)
		}
		return ex.byteSlice(ts)
	}
	// sync/atomic: a read-modify-write of the addressed cell (executions are sequential
	// in the engine; the access is recorded in the footprint like any other)
	for _, w := range []string{"Uint32", "Int32", "Uint64", "Int64", "Uintptr"} {
		stubTable["sync/atomic.Add"+w] = func(ex *Exec, fr *frame, args []Value) Value {
			p := args[0].(*Value)
			ex.noteRead(p)
			ex.noteWrite(p)
			n := ex.tt.Bin(OAdd, (*p).(*Term), args[1].(*Term))
			*p = n
			return n
		}
		stubTable["sync/atomic.Load"+w] = func(ex *Exec, fr *frame, args []Value) Value {
			p := args[0].(*Value)
			ex.noteRead(p)
			return *p
		}
		stubTable["sync/atomic.Store"+w] = func(ex *Exec, fr *frame, args []Value) Value {
			p := args[0].(*Value)
			ex.noteWrite(p)
			*p = args[1]
			return nil
		}
		stubTable["sync/atomic.Swap"+w] = func(ex *Exec, fr *frame, args []Value) Value {
			p := args[0].(*Value)
			ex.noteRead(p)
			ex.noteWrite(p)
			old := *p
			*p = args[1]
			return old
		}
		stubTable["sync/atomic.CompareAndSwap"+w] = func(ex *Exec, fr *frame, args []Value) Value {
			p := args[0].(*Value)
			ex.noteRead(p)
			if ex.branch(ex.tt.Eq((*p).(*Term), args[1].(*Term))) {
				ex.noteWrite(p)
				*p = args[2]
				return ex.tt.Bool(true)
			}
			return ex.tt.Bool(false)
		}
	}
	// CompletionCode.Description is a map lookup used only to format metric labels and
	// error messages: for a symbolic code it would fork once per known code, so it yields
	// an opaque string instead (formatting is not the subject of any property)
	stubTable["(github.com/gebn/bmc/pkg/ipmi.CompletionCode).Description"] = func(ex *Exec, fr *frame, args []Value) Value {
		if t, ok := args[0].(*Term); ok && !t.IsConst() {
			return &OpaqueStr{format: "ccdesc", args: []Value{t}}
		}
		return fallThrough
	}
}

func (ex *Exec) harnessAPI(fr *frame, name string, args []Value) (Value, bool) {
	tt := ex.tt
	switch name {
	case "vByte":
		return ex.drawScalar("byte", 8), true
	case "vU16":
		return ex.drawScalar("u16", 16), true
	case "vU32":
		return ex.drawScalar("u32", 32), true
	case "vU64":
		return ex.drawScalar("u64", 64), true
	case "vBool":
		t := ex.drawScalar("bool", 1)
		return tt.Eq(t, tt.BV(1, 1)), true
	case "vBytes":
		n := ex.concInt(args[0], "vBytes length")
		if n < 0 || n > 1<<16 {
			ex.unsupported("vBytes length out of range")
		}
		ts := ex.drawBytes(n)
		s := ex.byteSlice(ts)
		if n == 0 {
			s.data = make([]Value, 0)
		}
		return s, true
	case "vLen":
		lo := ex.concInt(args[0], "vLen lo")
		hi := ex.concInt(args[1], "vLen hi")
		if hi < lo {
			panic(&pathEnd{reason: "assume"})
		}
		c := ex.choice(hi - lo + 1)
		ex.drawConcrete("len", lo+c)
		return tt.BV(64, uint64(lo+c)), true
	case "vChoice":
		n := ex.concInt(args[0], "vChoice n")
		c := ex.choice(n)
		ex.drawConcrete("choice", c)
		return tt.BV(64, uint64(c)), true
	case "vAssume":
		ex.assume(term(args[0]))
		return nil, true
	case "vAssert":
		ex.assertProp(term(args[0]), ex.concStr(args[1], "vAssert label"))
		return nil, true
	case "vReached":
		ex.reached[ex.concStr(args[0], "vReached label")] = true
		return nil, true
	case "vTier":
		return tt.BV(64, uint64(ex.eng.tier)), true
	case "vParam":
		nm := ex.concStr(args[0], "vParam name")
		def := ex.concInt(args[1], "vParam default")
		if v, ok := ex.eng.params[nm]; ok {
			def = v
		}
		return tt.BV(64, uint64(def)), true
	case "vConc":
		t := args[0].(*Term)
		v := ex.concretize(t, "vConc")
		return tt.BV(t.sort.W, v), true
	case "vSymbolic":
		return tt.Bool(true), true
	case "vObserve":
		if os.Getenv("SYMGO_OBSERVE") != "" {
			var sb strings.Builder
			for _, a := range variadic(args[1]) {
				sb.WriteString(" " + describeValue(a, 0))
			}
			fmt.Fprintf(os.Stderr, "OBSERVE %s:%s\n", ex.concStr(args[0], "label"), sb.String())
		}
		return nil, true
	case "vEnd":
		panic(&pathEnd{reason: "done"})
	case "refHMAC":
		alg := ex.concInt(args[0], "refHMAC alg")
		key := ex.sliceTerms(args[1])
		msg := ex.sliceTerms(args[2])
		return ex.byteSlice(ex.hmacTerm(algName(alg), key, msg)), true
	case "refAESCBC":
		enc := ex.concretize(term(args[0]), "refAESCBC enc") == 1
		key := ex.sliceTerms(args[1])
		iv := ex.sliceTerms(args[2])
		data := ex.sliceTerms(args[3])
		return ex.byteSlice(ex.cbcTerm(enc, key, iv, data)), true
	case "vUseRealRand", "vIsolation":
		return nil, true
	case "vConflicts":
		// run the two operations one after the other, recording their footprints
		fa, fb := newFootprint(), newFootprint()
		ex.fp = fa
		ex.callValue(fr, args[0], nil, 0)
		ex.fp = fb
		ex.callValue(fr, args[1], nil, 0)
		ex.fp = nil
		d := conflicts(fa, fb)
		ex.lastConflict = d
		return tt.Bool(d != ""), true
	case "vSameFloat":
		a, b := args[0].(*Term), args[1].(*Term)
		if a == b {
			return tt.Bool(true), true
		}
		if a.IsConst() && b.IsConst() {
			x, y := a.Float(), b.Float()
			return tt.Bool(x == y || (x != x && y != y)), true
		}
		return tt.BOr(tt.FCmp(OFEq, a, b), tt.BAnd(tt.FUn(OFIsNaN, a, 0), tt.FUn(OFIsNaN, b, 0))), true
	case "vSameFields":
		a, b := args[0].(Iface), args[1].(Iface)
		skip := ex.concStr(args[2], "vSameFields skip")
		if a.t == nil || b.t == nil || !types.Identical(a.t, b.t) {
			return tt.Bool(a.t == nil && b.t == nil), true
		}
		return ex.sameFields(a.v, b.v, a.t, skip, 0), true
	case "vMetric":
		nm := ex.concStr(args[0], "vMetric name")
		return tt.BV(64, uint64(int64(ex.metricTotal(nm, nil)))), true
	case "vMetricL":
		nm := ex.concStr(args[0], "vMetricL name")
		return ex.metricLabelled(nm, args[1]), true
	case "vUDPConn":
		p := new(Value)
		*p = ex.zero(ex.eng.namedType("net", "UDPConn", false))
		ex.udp = &udpState{}
		return p, true
	case "vScriptReply":
		if ex.udp == nil {
			ex.udp = &udpState{}
		}
		ex.udp.kind = ex.concInt(args[0], "reply kind")
		ex.udp.delay = ex.tt.Resize(args[1].(*Term), 64, true)
		ex.udp.payload = ex.sliceTerms(args[2])
		return nil, true
	case "vInstant":
		return ex.clockTime(ex.tt.Resize(args[0].(*Term), 64, true)), true
	case "vWatchdog":
		ex.watchdogLabel = ex.concStr(args[1], "watchdog label")
		return nil, true
	case "vWatchdogStop":
		ex.watchdogLabel = ""
		return nil, true
	case "vBlockedForever":
		return tt.Bool(ex.blockedForever), true
	case "vClockStart":
		ex.clock = tt.BV(64, 0)
		return nil, true
	case "vNowNs":
		if ex.clock == nil {
			return tt.BV(64, 0), true
		}
		return ex.clock, true
	case "vSleepUntilNs":
		t := args[0].(*Term)
		if ex.clock != nil {
			// time never goes backwards
			ex.clock = tt.Ite(tt.Cmp(OSlt, ex.clock, t), t, ex.clock)
		}
		return nil, true
	case "vCtxDeadlineNs":
		if dl := ex.ctxDeadline(args[0]); dl != nil {
			return Tuple{dl, tt.Bool(true)}, true
		}
		return Tuple{tt.BV(64, 0), tt.Bool(false)}, true
	case "vSetRetryBound":
		ex.retryBound = ex.concInt(args[0], "retry bound")
		return nil, true
	case "vRandCalls":
		return tt.BV(64, uint64(ex.randCalls)), true
	case "vRandBytes":
		i := ex.concInt(args[0], "vRandBytes call index")
		if i < 1 || i > len(ex.randLog) {
			return Slice{}, true
		}
		return ex.byteSlice(ex.randLog[i-1]), true
	}
	return nil, false
}

func algName(a int) string {
	switch a {
	case 1:
		return "sha1"
	case 2:
		return "md5"
	case 3:
		return "sha256"
	}
	return fmt.Sprintf("alg%d", a)
}

func algSize(name string) int {
	switch name {
	case "sha1":
		return 20
	case "md5":
		return 16
	case "sha256":
		return 32
	}
	return 0
}

// ---- crypto ----

// hmacTerm returns the bytes of HMAC_alg(key, msg) as extracts of one UF application.
func (ex *Exec) hmacTerm(alg string, key, msg []*Term) []*Term {
	tt := ex.tt
	if len(key) > 64 {
		ex.unsupported("HMAC key longer than the block size")
	}
	pk := make([]*Term, 64)
	for i := range pk {
		if i < len(key) {
			pk[i] = key[i]
		} else {
			pk[i] = tt.BV(8, 0)
		}
	}
	kb := tt.BytesToBV(pk)
	size := algSize(alg)
	var app *Term
	if len(msg) == 0 {
		app = tt.UF(fmt.Sprintf("hmac_%s_m0", alg), bv(8*size), kb)
	} else {
		app = tt.UF(fmt.Sprintf("hmac_%s_m%d", alg, len(msg)), bv(8*size), kb, tt.BytesToBV(msg))
	}
	ex.hmacAxioms(alg, app, size)
	return ex.splitBytes(app, size)
}

func (ex *Exec) hashTerm(alg string, msg []*Term) []*Term {
	tt := ex.tt
	size := algSize(alg)
	var app *Term
	if len(msg) == 0 {
		app = tt.UF(fmt.Sprintf("hash_%s_m0", alg), bv(8*size))
	} else {
		app = tt.UF(fmt.Sprintf("hash_%s_m%d", alg, len(msg)), bv(8*size), tt.BytesToBV(msg))
	}
	return ex.splitBytes(app, size)
}

func (ex *Exec) splitBytes(t *Term, n int) []*Term {
	out := make([]*Term, n)
	for i := 0; i < n; i++ {
		hi := 8*(n-i) - 1
		out[i] = ex.tt.Extract(t, hi, hi-7)
	}
	return out
}

// cbcTerm models AES-128-CBC over whole messages as a pair of uninterpreted functions
// that are mutually inverse for equal key and IV.
func (ex *Exec) cbcTerm(enc bool, key, iv, data []*Term) []*Term {
	tt := ex.tt
	if len(key) != 16 || len(iv) != 16 {
		ex.unsupported("AES-CBC with key/IV length other than 16")
	}
	if len(data) == 0 {
		return nil
	}
	if len(data)%16 != 0 {
		ex.unsupported("AES-CBC on partial blocks")
	}
	k, v, d := tt.BytesToBV(key), tt.BytesToBV(iv), tt.BytesToBV(data)
	n := len(data)
	nameE := fmt.Sprintf("aescbc_enc_n%d", n)
	nameD := fmt.Sprintf("aescbc_dec_n%d", n)
	this, other := nameE, nameD
	if !enc {
		this, other = nameD, nameE
	}
	if d.op == OUF && d.name == other && d.args[0] == k && d.args[1] == v {
		return ex.splitBytes(d.args[2], n)
	}
	app := tt.UF(this, bv(8*n), k, v, d)
	// instance axiom: inverse(app) == d
	inv := tt.UF(other, bv(8*n), k, v, app)
	ax := tt.Eq(inv, d)
	if !ax.IsConst() {
		seen := false
		for _, a := range tt.axioms {
			if a == ax {
				seen = true
				break
			}
		}
		if !seen {
			tt.axioms = append(tt.axioms, ax)
		}
	}
	return ex.splitBytes(app, n)
}

type HashObj struct {
	alg   string
	key   []*Term // nil: plain hash
	keyed bool
	buf   []*Term
}

func (h *HashObj) HasMethod(name string) bool {
	switch name {
	case "Write", "Sum", "Reset", "Size", "BlockSize":
		return true
	}
	return false
}

func (h *HashObj) Invoke(ex *Exec, fr *frame, method string, args []Value) Value {
	tt := ex.tt
	switch method {
	case "Write":
		p := ex.sliceTerms(args[0])
		h.buf = append(h.buf, p...)
		return Tuple{tt.BV(64, uint64(len(p))), nilErr()}
	case "Sum":
		var d []*Term
		if h.keyed {
			d = ex.hmacTerm(h.alg, h.key, h.buf)
		} else {
			d = ex.hashTerm(h.alg, h.buf)
		}
		// append semantics: the digest is written into the argument's backing array when
		// it has room (as the real implementations do), otherwise into a new array
		if s, ok := args[0].(Slice); ok && s.data != nil {
			need := len(s.data) + len(d)
			if need <= cap(s.data) {
				nd := s.data[:need]
				for i, t := range d {
					ex.noteWrite(&nd[len(s.data)+i])
					nd[len(s.data)+i] = t
				}
				return Slice{data: nd}
			}
			var pre []*Term
			for _, e := range s.data {
				pre = append(pre, e.(*Term))
			}
			return ex.byteSlice(append(pre, d...))
		}
		return ex.byteSlice(d)
	case "Reset":
		h.buf = nil
		return nil
	case "Size":
		return tt.BV(64, uint64(algSize(h.alg)))
	case "BlockSize":
		return tt.BV(64, 64)
	}
	ex.unsupported("hash method " + method)
	return nil
}

type CipherObj struct{ key []*Term }

func (c *CipherObj) HasMethod(name string) bool {
	return name == "BlockSize" || name == "Encrypt" || name == "Decrypt"
}
func (c *CipherObj) Invoke(ex *Exec, fr *frame, method string, args []Value) Value {
	switch method {
	case "BlockSize":
		return ex.tt.BV(64, 16)
	case "Encrypt", "Decrypt":
		// one raw block = single-block CBC under an all-zero IV (same function family as cbcTerm)
		dst := args[0].(Slice)
		src := ex.sliceTerms(args[1])
		if len(src) < 16 {
			panic(&progPanic{kind: "explicit", msg: "crypto/aes: input not full block", fn: "crypto/aes.Encrypt",
				val: Iface{t: types.Typ[types.String], v: "crypto/aes: input not full block"}})
		}
		if len(dst.data) < 16 {
			panic(&progPanic{kind: "explicit", msg: "crypto/aes: output not full block", fn: "crypto/aes.Encrypt",
				val: Iface{t: types.Typ[types.String], v: "crypto/aes: output not full block"}})
		}
		zero := make([]*Term, 16)
		for i := range zero {
			zero[i] = ex.tt.BV(8, 0)
		}
		out := ex.cbcTerm(method == "Encrypt", c.key, zero, src[:16])
		for i, t := range out {
			ex.noteWrite(&dst.data[i])
			dst.data[i] = t
		}
		return nil
	}
	ex.unsupported("cipher.Block method " + method)
	return nil
}

type CBCObj struct {
	enc  bool
	key  []*Term
	iv   []*Term
	used bool
}

func (c *CBCObj) HasMethod(name string) bool { return name == "BlockSize" || name == "CryptBlocks" }
func (c *CBCObj) Invoke(ex *Exec, fr *frame, method string, args []Value) Value {
	switch method {
	case "BlockSize":
		return ex.tt.BV(64, 16)
	case "CryptBlocks":
		dst := args[0].(Slice)
		src := ex.sliceTerms(args[1])
		if len(src)%16 != 0 {
			panic(&progPanic{kind: "explicit", msg: "crypto/cipher: input not full blocks", fn: "crypto/cipher.CryptBlocks",
				val: Iface{t: types.Typ[types.String], v: "crypto/cipher: input not full blocks"}})
		}
		if len(dst.data) < len(src) {
			panic(&progPanic{kind: "explicit", msg: "crypto/cipher: output smaller than input", fn: "crypto/cipher.CryptBlocks",
				val: Iface{t: types.Typ[types.String], v: "crypto/cipher: output smaller than input"}})
		}
		if len(src) == 0 {
			return nil
		}
		out := ex.cbcTerm(c.enc, c.key, c.iv, src)
		// CBC chaining: a further call continues from the last ciphertext block
		if c.enc {
			c.iv = append([]*Term{}, out[len(out)-16:]...)
		} else {
			c.iv = append([]*Term{}, src[len(src)-16:]...)
		}
		for i, t := range out {
			ex.noteWrite(&dst.data[i])
			dst.data[i] = t
		}
		return nil
	}
	ex.unsupported("cipher.BlockMode method " + method)
	return nil
}

type stubFn func(ex *Exec, fr *frame, args []Value) Value

var stubTable map[string]stubFn

func init() {
	stubTable = map[string]stubFn{
		"fmt.Errorf": func(ex *Exec, fr *frame, args []Value) Value {
			return ex.mkError(ex.concStr(args[0], "format"), variadic(args[1]))
		},
		"fmt.Sprintf": func(ex *Exec, fr *frame, args []Value) Value {
			return &OpaqueStr{format: ex.concStr(args[0], "format"), args: variadic(args[1])}
		},
		"fmt.Sprint": func(ex *Exec, fr *frame, args []Value) Value {
			return &OpaqueStr{format: "Sprint", args: variadic(args[0])}
		},
		"fmt.Println": func(ex *Exec, fr *frame, args []Value) Value {
			return Tuple{ex.tt.BV(64, 0), nilErr()}
		},
		"fmt.Printf": func(ex *Exec, fr *frame, args []Value) Value {
			return Tuple{ex.tt.BV(64, 0), nilErr()}
		},
		"encoding/hex.EncodeToString": func(ex *Exec, fr *frame, args []Value) Value {
			return &OpaqueStr{format: "hex", args: []Value{args[0]}}
		},
		"strconv.Itoa": func(ex *Exec, fr *frame, args []Value) Value {
			t := args[0].(*Term)
			if t.IsConst() {
				return fmt.Sprint(int64(t.cval))
			}
			return &OpaqueStr{format: "itoa", args: []Value{t}}
		},
		"crypto/hmac.New": func(ex *Exec, fr *frame, args []Value) Value {
			alg := ""
			switch f := args[0].(type) {
			case *ssa.Function:
				alg = hashAlgOf(f.String())
			case *Closure:
				alg = hashAlgOf(f.fn.String())
			}
			if alg == "" {
				ex.unsupported(fmt.Sprintf("hmac.New with unknown hash constructor %v", args[0]))
			}
			key := ex.sliceTerms(args[1])
			return Iface{t: ex.eng.namedType("crypto/hmac", "hmac", true), v: &HashObj{alg: alg, key: append([]*Term{}, key...), keyed: true}}
		},
		"crypto/hmac.Equal": func(ex *Exec, fr *frame, args []Value) Value {
			return ex.bytesEqual(ex.sliceTerms(args[0]), ex.sliceTerms(args[1]))
		},
		"crypto/subtle.ConstantTimeCompare": func(ex *Exec, fr *frame, args []Value) Value {
			c := ex.bytesEqual(ex.sliceTerms(args[0]), ex.sliceTerms(args[1]))
			return ex.tt.Ite(c, ex.tt.BV(64, 1), ex.tt.BV(64, 0))
		},
		"crypto/subtle.XORBytes": func(ex *Exec, fr *frame, args []Value) Value {
			dst := args[0].(Slice)
			x, y := ex.sliceTerms(args[1]), ex.sliceTerms(args[2])
			n := len(x)
			if len(y) < n {
				n = len(y)
			}
			if n == 0 {
				return ex.tt.BV(64, 0)
			}
			if len(dst.data) < n {
				panic(&progPanic{kind: "explicit", msg: "subtle.XORBytes: dst too short", fn: "crypto/subtle.XORBytes",
					val: Iface{t: types.Typ[types.String], v: "subtle.XORBytes: dst too short"}})
			}
			for i := 0; i < n; i++ {
				t := ex.tt.Bin(OXor, x[i], y[i])
				ex.noteWrite(&dst.data[i])
				dst.data[i] = t
			}
			return ex.tt.BV(64, uint64(n))
		},
		"crypto/sha1.New": func(ex *Exec, fr *frame, args []Value) Value {
			return Iface{t: ex.eng.namedType("crypto/sha1", "digest", true), v: &HashObj{alg: "sha1"}}
		},
		"crypto/md5.New": func(ex *Exec, fr *frame, args []Value) Value {
			return Iface{t: ex.eng.namedType("crypto/md5", "digest", true), v: &HashObj{alg: "md5"}}
		},
		"crypto/sha256.New": func(ex *Exec, fr *frame, args []Value) Value {
			return Iface{t: ex.eng.namedType("crypto/sha256", "digest", true), v: &HashObj{alg: "sha256"}}
		},
		"crypto/aes.NewCipher": func(ex *Exec, fr *frame, args []Value) Value {
			key := ex.sliceTerms(args[0])
			if len(key) != 16 && len(key) != 24 && len(key) != 32 {
				return Tuple{Iface{}, ex.mkError("crypto/aes: invalid key size", nil)}
			}
			return Tuple{Iface{t: ex.eng.namedType("crypto/aes", "aesCipher", true), v: &CipherObj{key: append([]*Term{}, key...)}}, nilErr()}
		},
		"crypto/cipher.NewCBCEncrypter": func(ex *Exec, fr *frame, args []Value) Value {
			return ex.newCBC(fr, true, args)
		},
		"crypto/cipher.NewCBCDecrypter": func(ex *Exec, fr *frame, args []Value) Value {
			return ex.newCBC(fr, false, args)
		},
		"crypto/rand.Read": func(ex *Exec, fr *frame, args []Value) Value {
			s := args[0].(Slice)
			ex.randCalls++
			ts := make([]*Term, len(s.data))
			for i := range ts {
				ex.nSym++
				ts[i] = ex.tt.Var(fmt.Sprintf("rnd%d_%d", ex.randCalls, ex.nSym), bv(8))
				ex.noteWrite(&s.data[i])
				s.data[i] = ts[i]
			}
			ex.draws = append(ex.draws, Draw{Kind: "rand", N: len(ts), terms: ts})
			ex.randLog = append(ex.randLog, ts)
			return Tuple{ex.tt.BV(64, uint64(len(ts))), nilErr()}
		},
		"math.Float64bits": func(ex *Exec, fr *frame, args []Value) Value {
			t := args[0].(*Term)
			if t.IsConst() {
				return ex.tt.BV(64, t.cval)
			}
			ex.unsupported("Float64bits of symbolic float")
			return nil
		},
		"math.Float64frombits": func(ex *Exec, fr *frame, args []Value) Value {
			return ex.tt.FFromBits(args[0].(*Term))
		},
		"math.Ceil": func(ex *Exec, fr *frame, args []Value) Value {
			return ex.tt.FUn(OFRound, args[0].(*Term), 0)
		},
		"math.Floor": func(ex *Exec, fr *frame, args []Value) Value {
			return ex.tt.FUn(OFRound, args[0].(*Term), 1)
		},
		"math.Trunc": func(ex *Exec, fr *frame, args []Value) Value {
			return ex.tt.FUn(OFRound, args[0].(*Term), 2)
		},
		"math.Sqrt": func(ex *Exec, fr *frame, args []Value) Value {
			return ex.tt.FUn(OFSqrt, args[0].(*Term), 0)
		},
		"math.Abs": func(ex *Exec, fr *frame, args []Value) Value {
			return ex.tt.FUn(OFAbs, args[0].(*Term), 0)
		},
	}
	indexByte := func(ex *Exec, fr *frame, args []Value) Value {
		var bs []*Term
		switch v := args[0].(type) {
		case Slice:
			bs = ex.sliceTerms(v)
		default:
			bs = ex.strBytes(v)
		}
		c := args[1].(*Term)
		tt := ex.tt
		res := tt.BV(64, ^uint64(0)) // -1
		for i := len(bs) - 1; i >= 0; i-- {
			res = tt.Ite(tt.Eq(bs[i], c), tt.BV(64, uint64(i)), res)
		}
		return res
	}
	stubTable["errors.Is"] = func(ex *Exec, fr *frame, args []Value) Value {
		err, target := args[0], args[1]
		for depth := 0; depth < 8; depth++ {
			ei, ok := err.(Iface)
			if !ok || ei.t == nil {
				return ex.tt.Bool(false)
			}
			if ex.branch(ex.equalLoose(err, target)) {
				return ex.tt.Bool(true)
			}
			if _, stub := ei.v.(StubObject); stub {
				return ex.tt.Bool(false)
			}
			sel := ex.eng.prog.MethodSets.MethodSet(ei.t).Lookup(nil, "Unwrap")
			if sel == nil {
				return ex.tt.Bool(false)
			}
			m := ex.eng.prog.MethodValue(sel)
			if m == nil || m.Signature.Results().Len() != 1 {
				return ex.tt.Bool(false)
			}
			err = ex.callFunction(fr, m, []Value{ei.v}, nil, 0)
		}
		return ex.tt.Bool(false)
	}
	stubTable["bytes.IndexByte"] = indexByte
	stubTable["strings.IndexByte"] = indexByte
	stubTable["internal/bytealg.IndexByte"] = indexByte
	stubTable["internal/bytealg.IndexByteString"] = indexByte
	stubTable["bytes.Equal"] = func(ex *Exec, fr *frame, args []Value) Value {
		return ex.bytesEqual(ex.sliceTerms(args[0]), ex.sliceTerms(args[1]))
	}
	for _, n := range []string{"Log", "Log2", "Log10", "Exp", "Exp2", "Pow", "Cbrt"} {
		name := n
		stubTable["math."+name] = func(ex *Exec, fr *frame, args []Value) Value {
			ts := make([]*Term, len(args))
			allConst := true
			for i, a := range args {
				ts[i] = a.(*Term)
				if !ts[i].IsConst() {
					allConst = false
				}
			}
			if allConst {
				return ex.tt.FP(mathConst(name, ts))
			}
			return ex.tt.UF("math_"+name, fpSort, ts...)
		}
	}
	registerEnvStubs()
	registerLibStubs()
}

func hashAlgOf(s string) string {
	switch s {
	case "crypto/sha1.New":
		return "sha1"
	case "crypto/md5.New":
		return "md5"
	case "crypto/sha256.New":
		return "sha256"
	}
	return ""
}

func (ex *Exec) newCBC(fr *frame, enc bool, args []Value) Value {
	blk, ok := args[0].(Iface)
	if !ok || blk.t == nil {
		ex.rtPanic(fr, "nil", "invalid memory address or nil pointer dereference (nil cipher.Block)", 0)
	}
	co, ok := blk.v.(*CipherObj)
	if !ok {
		ex.unsupported("CBC mode over a non-AES block")
	}
	iv := ex.sliceTerms(args[1])
	if len(iv) != 16 {
		panic(&progPanic{kind: "explicit", msg: "cipher.NewCBC: IV length must equal block size", fn: "crypto/cipher.NewCBC",
			val: Iface{t: types.Typ[types.String], v: "cipher.NewCBCEncrypter: IV length must equal block size"}})
	}
	return Iface{t: ex.eng.namedType("crypto/cipher", "cbcEncrypter", true), v: &CBCObj{enc: enc, key: co.key, iv: append([]*Term{}, iv...)}}
}

func describeValue(v Value, depth int) string {
	if depth > 3 {
		return "..."
	}
	switch x := v.(type) {
	case *Term:
		if x.IsConst() {
			return constStr(x)
		}
		b := x.ref()
		if x.op != OVar {
			bd := x.body()
			if len(bd) > 80 {
				bd = bd[:80] + "..."
			}
			b += "=" + bd
		}
		return b
	case Iface:
		if x.t == nil {
			return "nil-iface"
		}
		return "iface(" + typeString(x.t) + ":" + describeValue(x.v, depth+1) + ")"
	case Slice:
		var parts []string
		for i, e := range x.data {
			if i > 70 {
				parts = append(parts, "...")
				break
			}
			parts = append(parts, describeValue(e, depth+1))
		}
		return fmt.Sprintf("slice[%d]{%s}", len(x.data), strings.Join(parts, ","))
	case string:
		return fmt.Sprintf("%q", x)
	case *Value:
		if x == nil {
			return "nil-ptr"
		}
		return "&" + describeValue(*x, depth+1)
	case Struct:
		var parts []string
		for _, e := range x {
			parts = append(parts, describeValue(e, depth+1))
		}
		return "{" + strings.Join(parts, ",") + "}"
	case *OpaqueStr:
		return "fmt(" + x.format + ")"
	}
	return fmt.Sprintf("%T", v)
}

// sameFields compares two values of static type t structurally: scalars, strings,
// arrays, slices (by length and content; nil and empty are the same), structs field by
// field (skipping fields named skip), pointers by pointee. Interface, func, map and
// channel fields are not compared.
func (ex *Exec) sameFields(a, b Value, t types.Type, skip string, depth int) *Term {
	tt := ex.tt
	if depth > 12 {
		return tt.Bool(true)
	}
	switch u := under(t).(type) {
	case *types.Basic:
		return ex.equal(a, b)
	case *types.Pointer:
		pa, pb := a.(*Value), b.(*Value)
		if pa == pb {
			return tt.Bool(true)
		}
		if pa == nil || pb == nil {
			return tt.Bool(false)
		}
		return ex.sameFields(*pa, *pb, u.Elem(), skip, depth+1)
	case *types.Struct:
		sa, sb := a.(Struct), b.(Struct)
		acc := tt.Bool(true)
		for i := 0; i < u.NumFields(); i++ {
			if u.Field(i).Name() == skip {
				continue
			}
			acc = tt.BAnd(acc, ex.sameFields(sa[i], sb[i], u.Field(i).Type(), skip, depth+1))
		}
		return acc
	case *types.Array:
		aa, ab := a.(Array), b.(Array)
		acc := tt.Bool(true)
		for i := range aa {
			acc = tt.BAnd(acc, ex.sameFields(aa[i], ab[i], u.Elem(), skip, depth+1))
		}
		return acc
	case *types.Slice:
		sa, sb := a.(Slice), b.(Slice)
		if len(sa.data) != len(sb.data) {
			return tt.Bool(false)
		}
		acc := tt.Bool(true)
		for i := range sa.data {
			acc = tt.BAnd(acc, ex.sameFields(sa.data[i], sb.data[i], u.Elem(), skip, depth+1))
		}
		return acc
	}
	return tt.Bool(true)
}

// hmacAxioms adds, for the new HMAC application and every earlier one of the same hash
// on this path, the collision-freedom instance axiom on the 96-bit prefix (the shortest
// truncation IPMI uses): equal prefixes imply equal key and message.
func (ex *Exec) hmacAxioms(alg string, app *Term, size int) {
	tt := ex.tt
	for _, prev := range ex.hmacApps[alg] {
		if prev == app {
			return
		}
	}
	pa := tt.Extract(app, 8*size-1, 8*size-96)
	for _, prev := range ex.hmacApps[alg] {
		pp := tt.Extract(prev, 8*size-1, 8*size-96)
		same := tt.Eq(pa, pp)
		var argsEq *Term
		if prev.name != app.name || len(prev.args) != len(app.args) {
			argsEq = tt.Bool(false) // different message lengths
		} else {
			argsEq = tt.Bool(true)
			for i := range app.args {
				argsEq = tt.BAnd(argsEq, tt.Eq(app.args[i], prev.args[i]))
			}
		}
		ax := tt.BOr(tt.BNot(same), argsEq)
		if !ax.IsConst() {
			tt.axioms = append(tt.axioms, ax)
		}
	}
	if ex.hmacApps == nil {
		ex.hmacApps = map[string][]*Term{}
	}
	ex.hmacApps[alg] = append(ex.hmacApps[alg], app)
}

package main

// One long-lived SMT solver process per worker, SMT-LIB2 over a pipe.

import (
	"bufio"
	"fmt"
	"io"
	"os/exec"
	"strings"
	"time"
)

type Solver struct {
	kind    string // z3 | z3-new | cvc5
	cmd     *exec.Cmd
	in      io.WriteCloser
	out     *bufio.Reader
	log     io.Writer
	timeout int // ms per check
	// statistics
	nCheck   int
	nSat     int
	nUnsat   int
	nUnknown int
	nErrors  int
	wall     time.Duration
	dead     bool
	lastErr  string
}

func NewSolver(kind string, timeoutMs int, log io.Writer) (*Solver, error) {
	var cmd *exec.Cmd
	switch kind {
	case "z3":
		cmd = exec.Command("z3", "-in", "-smt2")
	case "z3-new":
		cmd = exec.Command("z3-new", "-in", "-smt2")
	case "cvc5":
		cmd = exec.Command("cvc5", "--incremental", "--lang=smt2", "--produce-models", fmt.Sprintf("--tlimit-per=%d", timeoutMs))
	case "cvc5-int":
		cmd = exec.Command("cvc5", "--incremental", "--lang=smt2", "--produce-models", "--solve-bv-as-int=sum", fmt.Sprintf("--tlimit-per=%d", timeoutMs))
	default:
		return nil, fmt.Errorf("unknown solver %q", kind)
	}
	in, err := cmd.StdinPipe()
	if err != nil {
		return nil, err
	}
	outp, err := cmd.StdoutPipe()
	if err != nil {
		return nil, err
	}
	cmd.Stderr = cmd.Stdout
	if err := cmd.Start(); err != nil {
		return nil, err
	}
	s := &Solver{kind: kind, cmd: cmd, in: in, out: bufio.NewReaderSize(outp, 1<<16), log: log, timeout: timeoutMs}
	s.preamble()
	return s, nil
}

func (s *Solver) preamble() {
	if strings.HasPrefix(s.kind, "z3") {
		s.send("(set-option :print-success false)")
		s.send(fmt.Sprintf("(set-option :timeout %d)", s.timeout))
		s.send("(set-option :model.completion true)")
	} else {
		s.send("(set-logic ALL)")
	}
}

func (s *Solver) send(line string) {
	if s.dead {
		return
	}
	if s.log != nil {
		fmt.Fprintln(s.log, line)
	}
	if _, err := io.WriteString(s.in, line+"\n"); err != nil {
		s.dead = true
	}
}

// Reset clears all assertions and declarations.
func (s *Solver) Reset() {
	if strings.HasPrefix(s.kind, "z3") {
		s.send("(reset)")
		s.preamble()
	} else {
		s.send("(reset)")
		s.preamble()
	}
}

func (s *Solver) readLine() (string, error) {
	l, err := s.out.ReadString('\n')
	if err != nil {
		s.dead = true
		return "", err
	}
	l = strings.TrimSpace(l)
	if s.log != nil {
		fmt.Fprintln(s.log, "; <- "+l)
	}
	return l, nil
}

// CheckSat returns "sat", "unsat" or "unknown" (errors and timeouts map to unknown).
func (s *Solver) CheckSat() string {
	if s.dead {
		return "unknown"
	}
	t0 := time.Now()
	s.send("(check-sat)")
	s.nCheck++
	res := "unknown"
	errSeen := false
	for {
		l, err := s.readLine()
		if err != nil {
			s.nErrors++
			break
		}
		if l == "" {
			continue
		}
		if l == "sat" || l == "unsat" || l == "unknown" {
			res = l
			break
		}
		if strings.HasPrefix(l, "(error") {
			// an earlier command was rejected: whatever answer follows cannot be trusted
			s.nErrors++
			s.lastErr = l
			errSeen = true
			continue
		}
		if strings.Contains(l, "timeout") || strings.Contains(l, "interrupted") {
			res = "unknown"
			break
		}
	}
	s.wall += time.Since(t0)
	if errSeen {
		res = "unknown"
	}
	switch res {
	case "sat":
		s.nSat++
	case "unsat":
		s.nUnsat++
	default:
		s.nUnknown++
	}
	return res
}

// GetValues returns the model values of the given terms (BV/Bool only) as uint64.
// Must follow a "sat" answer. Terms wider than 64 bits are not supported here.
func (s *Solver) GetValues(refs []string) ([]uint64, error) {
	out := make([]uint64, len(refs))
	const chunk = 200
	for i := 0; i < len(refs); i += chunk {
		j := i + chunk
		if j > len(refs) {
			j = len(refs)
		}
		s.send("(get-value (" + strings.Join(refs[i:j], " ") + "))")
		txt, err := s.readSexp()
		if err != nil {
			return nil, err
		}
		vals, err := parseGetValue(txt, j-i)
		if err != nil {
			return nil, fmt.Errorf("%v in %q", err, txt)
		}
		copy(out[i:j], vals)
	}
	return out, nil
}

// readSexp reads one complete balanced s-expression from the solver output.
func (s *Solver) readSexp() (string, error) {
	var sb strings.Builder
	depth := 0
	started := false
	for {
		l, err := s.readLine()
		if err != nil {
			return "", err
		}
		if strings.HasPrefix(l, "(error") && !started {
			s.nErrors++
			return "", fmt.Errorf("solver error: %s", l)
		}
		for _, c := range l {
			if c == '(' {
				depth++
				started = true
			} else if c == ')' {
				depth--
			}
		}
		sb.WriteString(l)
		sb.WriteByte(' ')
		if started && depth <= 0 {
			return sb.String(), nil
		}
	}
}

// parseGetValue parses "((ref val) (ref val) ...)" where val is #x.., #b.., true, false.
func parseGetValue(txt string, n int) ([]uint64, error) {
	vals := make([]uint64, 0, n)
	// find values: scan tokens; every pair's last atom before ')' is the value
	i := 0
	for i < len(txt) {
		c := txt[i]
		if c == '#' && i+1 < len(txt) && (txt[i+1] == 'x' || txt[i+1] == 'b') {
			j := i + 2
			for j < len(txt) && txt[j] != ')' && txt[j] != ' ' {
				j++
			}
			// a value only if followed by ')' (closing of the pair)
			k := j
			for k < len(txt) && txt[k] == ' ' {
				k++
			}
			if k < len(txt) && txt[k] == ')' {
				lit := txt[i+2 : j]
				var v uint64
				if txt[i+1] == 'x' {
					if len(lit) > 16 {
						lit = lit[len(lit)-16:]
					}
					fmt.Sscanf(lit, "%x", &v)
				} else {
					if len(lit) > 64 {
						lit = lit[len(lit)-64:]
					}
					fmt.Sscanf(lit, "%b", &v)
				}
				vals = append(vals, v)
			}
			i = j
			continue
		}
		if strings.HasPrefix(txt[i:], "true)") || strings.HasPrefix(txt[i:], "true )") {
			if i > 0 && txt[i-1] == ' ' {
				vals = append(vals, 1)
			}
			i += 4
			continue
		}
		if strings.HasPrefix(txt[i:], "false)") || strings.HasPrefix(txt[i:], "false )") {
			if i > 0 && txt[i-1] == ' ' {
				vals = append(vals, 0)
			}
			i += 5
			continue
		}
		i++
	}
	if len(vals) != n {
		return nil, fmt.Errorf("expected %d values, parsed %d", n, len(vals))
	}
	return vals, nil
}

func (s *Solver) Close() {
	if s.in != nil {
		io.WriteString(s.in, "(exit)\n")
		s.in.Close()
	}
	done := make(chan struct{})
	go func() { s.cmd.Wait(); close(done) }()
	select {
	case <-done:
	case <-time.After(2 * time.Second):
		s.cmd.Process.Kill()
	}
}

package main

// The `check` command: runs all harnesses registered for a property, replays solver
// models natively against the real build, applies the known-findings file and writes
// the evidence file.

import (
	"encoding/json"
	"flag"
	"fmt"
	"math/rand"
	"os"
	"os/exec"
	"path/filepath"
	"regexp"
	"runtime"
	"sort"
	"strconv"
	"strings"
	"time"

	"golang.org/x/tools/go/ssa"
)

type HarnessCfg struct {
	Name           string           `json:"name"`
	Quick          map[string]int   `json:"quick"`
	Thorough       map[string]int   `json:"thorough"`
	Bound          string           `json:"bound"` // human-readable statement of the bound
	Solver         string           `json:"solver,omitempty"`
	CrossCheck     bool             `json:"crosscheck,omitempty"` // thorough tier: repeat under a second solver and compare
	Instances      []map[string]int `json:"instances,omitempty"`  // run once per instance (params merged)
	QuickInstances []map[string]int `json:"quick_instances,omitempty"`
}

type PropCfg struct {
	Harnesses   []HarnessCfg `json:"harnesses"`
	Assumptions []string     `json:"assumptions"`
	Outside     []string     `json:"outside"`
}

type KnownFinding struct {
	Property string `json:"property"`
	Match    string `json:"match"` // regexp over "<harness>|<kind>|<label>"
	What     string `json:"what"`
}

type KnownFile struct {
	Findings []KnownFinding `json:"findings"`
	Fixed    []string       `json:"fixed"`
}

type replayer struct {
	eng     *Engine
	scratch string
	bins    map[string]string // pkg dir name -> test binary
	errs    map[string]string
	race    bool // build the native replay binary with the race detector (C19)
}

var harnessFuncRe = regexp.MustCompile(`(?m)^func (Verif[A-Za-z0-9_]+)\(\)`)

func (r *replayer) build(pkgDir string) (string, error) {
	key := pkgDir
	if r.race {
		key += "+race"
	}
	return r.buildKey(pkgDir, key)
}

func (r *replayer) buildKey(pkgDir, key string) (string, error) {
	if b, ok := r.bins[key]; ok {
		if b == "" {
			return "", fmt.Errorf("%s", r.errs[key])
		}
		return b, nil
	}
	ip := harnessPkgs[pkgDir]
	hdir := filepath.Join(r.eng.verifDir, "harness", pkgDir)
	ents, _ := os.ReadDir(hdir)
	repl := map[string]string{}
	var names []string
	for _, ent := range ents {
		if !strings.HasSuffix(ent.Name(), ".go") {
			continue
		}
		src, _ := os.ReadFile(filepath.Join(hdir, ent.Name()))
		for _, m := range harnessFuncRe.FindAllStringSubmatch(string(src), -1) {
			names = append(names, m[1])
		}
		repl[filepath.Join(pkgDirOf(r.eng.repo, ip), "zz_verif_"+ent.Name())] = filepath.Join(hdir, ent.Name())
	}
	rt, err := os.ReadFile(filepath.Join(r.eng.verifDir, "harness", "rt", "rt.go.tmpl"))
	if err != nil {
		return "", err
	}
	rtPath := filepath.Join(r.scratch, "rt_"+pkgDir+".go")
	os.WriteFile(rtPath, []byte(strings.Replace(string(rt), "package PKG", "package "+pkgDir, 1)), 0o644)
	repl[filepath.Join(pkgDirOf(r.eng.repo, ip), "zz_verif_rt.go")] = rtPath
	var sb strings.Builder
	fmt.Fprintf(&sb, "package %s\n\nimport (\n\t\"fmt\"\n\t\"os\"\n\t\"testing\"\n)\n\n", pkgDir)
	sb.WriteString("var vHarnesses = map[string]func(){\n")
	for _, n := range names {
		fmt.Fprintf(&sb, "\t%q: %s,\n", n, n)
	}
	sb.WriteString("}\n\nfunc TestVerifReplay(t *testing.T) {\n\tname := vLoadTape(os.Getenv(\"VERIF_TAPE\"))\n\tf := vHarnesses[name]\n\tif f == nil {\n\t\tfmt.Println(\"REPLAY no-such-harness \" + name)\n\t\treturn\n\t}\n\tfmt.Println(vRunHarness(f))\n}\n")
	tPath := filepath.Join(r.scratch, "replay_"+pkgDir+"_test.go")
	os.WriteFile(tPath, []byte(sb.String()), 0o644)
	repl[filepath.Join(pkgDirOf(r.eng.repo, ip), "zz_verif_replay_test.go")] = tPath
	ov, _ := json.Marshal(map[string]interface{}{"Replace": repl})
	ovPath := filepath.Join(r.scratch, "overlay_"+pkgDir+".json")
	os.WriteFile(ovPath, ov, 0o644)
	bin := filepath.Join(r.scratch, strings.ReplaceAll(key, "+", "_")+".test")
	buildArgs := []string{"test", "-c", "-vet=off", "-overlay", ovPath, "-o", bin}
	if r.race {
		buildArgs = append(buildArgs, "-race")
	}
	buildArgs = append(buildArgs, ip)
	cmd := exec.Command("go", buildArgs...)
	cmd.Dir = r.eng.repo
	cmd.Env = append(os.Environ(), "GOFLAGS=-mod=readonly", "GOPROXY=off", "GOSUMDB=off", "GOTOOLCHAIN=local")
	out, err := cmd.CombinedOutput()
	if err != nil {
		r.bins[key] = ""
		r.errs[key] = fmt.Sprintf("native build failed: %v\n%s", err, out)
		return "", fmt.Errorf("%s", r.errs[key])
	}
	r.bins[key] = bin
	return bin, nil
}

// replay runs the tape natively; returns the REPLAY line.
func (r *replayer) replay(harness string, tapePath string) string {
	pkgDir := strings.SplitN(harness, ".", 2)[0]
	bin, err := r.build(pkgDir)
	if err != nil {
		return "REPLAY build-error " + err.Error()
	}
	cmd := exec.Command("timeout", "120", bin, "-test.run", "^TestVerifReplay$", "-test.v", "-test.timeout", "100s")
	cmd.Env = append(os.Environ(), "VERIF_TAPE="+tapePath)
	cmd.Dir = pkgDirOf(r.eng.repo, harnessPkgs[pkgDir])
	out, _ := cmd.CombinedOutput()
	if r.race && (strings.Contains(string(out), "fatal error: concurrent map") || strings.Contains(string(out), "WARNING: DATA RACE")) {
		return "REPLAY confirmed-race the race detector reports a data race between the two operations"
	}
	if r.race && strings.Contains(string(out), "ISOLATION ") {
		// no data race: shared state may still be synchronised (atomics, locks). Run each
		// workload alone and after the other one, in separate processes, and compare
		// what it did.
		iso := func(mode, label string) string {
			c := exec.Command("timeout", "120", bin, "-test.run", "^TestVerifReplay$", "-test.v", "-test.timeout", "100s")
			c.Env = append(os.Environ(), "VERIF_TAPE="+tapePath, "VERIF_C19_MODE="+mode)
			c.Dir = cmd.Dir
			o, _ := c.CombinedOutput()
			for _, l := range strings.Split(string(o), "\n") {
				if strings.HasPrefix(l, "ISOLATION "+label+" ") {
					return l
				}
			}
			return ""
		}
		for _, pr := range [][3]string{{"a", "ba", "a"}, {"b", "ab", "b"}} {
			alone, after := iso(pr[0], pr[2]), iso(pr[1], pr[2])
			if alone != "" && after != "" && alone != after {
				return "REPLAY confirmed-interference workload " + pr[2] + " behaves differently when the other connection's workload ran first in the same process (run alone: " + clip(alone, 80) + "; after the other: " + clip(after, 80) + ")"
			}
		}
	}
	for _, l := range strings.Split(string(out), "\n") {
		if strings.HasPrefix(l, "REPLAY ") {
			return strings.TrimSpace(l)
		}
	}
	// a crash outside vRunHarness (e.g. fatal error, timeout)
	s := string(out)
	if len(s) > 400 {
		s = s[len(s)-400:]
	}
	return "REPLAY no-result " + strings.ReplaceAll(s, "\n", " | ")
}

// perturbTape returns a copy of the tape in which some data draws (bytes, scalars, crypto/rand
// output) carry other values; structural draws (choices, lengths, booleans) are kept.
func perturbTape(t []Draw, rng *rand.Rand) []Draw {
	out := make([]Draw, len(t))
	for i, d := range t {
		nd := d
		nd.Val = append([]uint64{}, d.Val...)
		switch d.Kind {
		case "bytes", "rand":
			if rng.Intn(100) < 25 {
				for j := range nd.Val {
					if rng.Intn(100) < 50 {
						nd.Val[j] = uint64(rng.Intn(256))
					}
				}
			}
		case "u32", "u64", "u16":
			if rng.Intn(100) < 10 && len(nd.Val) == 1 {
				nd.Val[0] ^= uint64(rng.Intn(1 << 16))
			}
		}
		out[i] = nd
	}
	return out
}

func clip(s string, n int) string {
	if len(s) > n {
		return s[:n] + "..."
	}
	return s
}

func writeTape(path string, h string, tier int, params map[string]int, tape []Draw) {
	type tf struct {
		Harness string         `json:"harness"`
		Tier    int            `json:"tier"`
		Params  map[string]int `json:"params"`
		Tape    []Draw         `json:"tape"`
	}
	fn := strings.SplitN(h, ".", 2)[1]
	b, _ := json.Marshal(tf{Harness: fn, Tier: tier, Params: params, Tape: tape})
	os.WriteFile(path, b, 0o644)
}

// expectedLabels collects constant vReached / vAssert labels statically reachable from
// the harness through functions defined in harness (overlay) files.
func (e *Engine) expectedLabels(h *HarnessSpec) (reached, asserts []string) {
	seen := map[*ssa.Function]bool{}
	rs, as := map[string]bool{}, map[string]bool{}
	var walk func(fn *ssa.Function)
	inHarnessFile := func(fn *ssa.Function) bool {
		p := e.prog.Fset.Position(fn.Pos())
		return strings.Contains(filepath.Base(p.Filename), "zz_verif_")
	}
	walk = func(fn *ssa.Function) {
		if seen[fn] || fn.Blocks == nil {
			return
		}
		seen[fn] = true
		for _, b := range fn.Blocks {
			for _, in := range b.Instrs {
				var cc *ssa.CallCommon
				switch c := in.(type) {
				case *ssa.Call:
					cc = &c.Call
				case *ssa.Defer:
					cc = &c.Call
				case *ssa.MakeClosure:
					if f, ok := c.Fn.(*ssa.Function); ok {
						walk(f)
					}
					continue
				default:
					continue
				}
				callee := cc.StaticCallee()
				if callee == nil {
					continue
				}
				switch callee.Name() {
				case "vReached":
					if c, ok := cc.Args[0].(*ssa.Const); ok {
						rs[strings.Trim(c.Value.ExactString(), `"`)] = true
					}
				case "vAssert":
					if c, ok := cc.Args[1].(*ssa.Const); ok {
						as[strings.Trim(c.Value.ExactString(), `"`)] = true
					}
				default:
					if inHarnessFile(callee) {
						walk(callee)
					}
				}
			}
		}
		for _, af := range fn.AnonFuncs {
			walk(af)
		}
	}
	walk(h.fn)
	for k := range rs {
		reached = append(reached, k)
	}
	for k := range as {
		asserts = append(asserts, k)
	}
	sort.Strings(reached)
	sort.Strings(asserts)
	return
}

func mergeParams(ms ...map[string]int) map[string]int {
	out := map[string]int{}
	for _, m := range ms {
		for k, v := range m {
			out[k] = v
		}
	}
	return out
}

func cmdCheck(args []string) {
	fs := flag.NewFlagSet("check", flag.ExitOnError)
	prop := fs.String("prop", "", "property id")
	tierS := fs.String("tier", envOr("VERIF_TIER", "quick"), "quick|thorough")
	repo := fs.String("repo", envOr("VERIF_REPO", "/repo"), "repository")
	verif := fs.String("verif", envOr("VERIF_DIR", "/verif"), "verif dir")
	workers := fs.Int("workers", runtime.NumCPU(), "workers")
	only := fs.String("only", "", "run only harnesses whose name contains this")
	noEvidence := fs.Bool("no-evidence", false, "do not write the evidence file")
	replayTape := fs.String("replay", "", "replay a tape file natively and exit")
	fs.Parse(args)
	tier := 0
	if *tierS == "thorough" {
		tier = 1
	}
	seed := 0
	if s := os.Getenv("VERIF_SEED"); s != "" {
		seed, _ = strconv.Atoi(s)
	}
	t0 := time.Now()

	var cfgAll map[string]PropCfg
	b, err := os.ReadFile(filepath.Join(*verif, "checks.json"))
	if err != nil {
		fmt.Fprintln(os.Stderr, err)
		os.Exit(2)
	}
	if err := json.Unmarshal(b, &cfgAll); err != nil {
		fmt.Fprintln(os.Stderr, "checks.json:", err)
		os.Exit(2)
	}
	cfg, ok := cfgAll[*prop]
	if !ok {
		fmt.Fprintln(os.Stderr, "no checks registered for", *prop)
		os.Exit(2)
	}
	var known KnownFile
	if kb, err := os.ReadFile(filepath.Join(*verif, "known_findings.json")); err == nil {
		json.Unmarshal(kb, &known)
	}

	e := newEngine(*repo, *verif, tier)
	scratch, _ := os.MkdirTemp("", "symgo-")
	defer os.RemoveAll(scratch)
	rp := &replayer{eng: e, scratch: scratch, bins: map[string]string{}, errs: map[string]string{}, race: *prop == "C19"}

	if *replayTape != "" {
		tb, err := os.ReadFile(*replayTape)
		if err != nil {
			fmt.Fprintln(os.Stderr, err)
			os.Exit(2)
		}
		var tf struct {
			Harness string `json:"harness"`
			Pkg     string `json:"pkg"`
		}
		json.Unmarshal(tb, &tf)
		base := filepath.Base(*replayTape)
		// file name: <prop>-<pkgdir>.<Func>-<n>.json
		parts := strings.SplitN(base, "-", 3)
		h := parts[1]
		fmt.Println(rp.replay(h, *replayTape))
		return
	}

	if err := e.Load(); err != nil {
		fmt.Fprintln(os.Stderr, "load:", err)
		fmt.Printf("INCONCLUSIVE property=%s cannot load /repo: %v\n", *prop, err)
		os.RemoveAll(scratch)
		os.Exit(2)
	}
	loadS := time.Since(t0).Seconds()

	replayDir := filepath.Join(*verif, "evidence", "replay")
	os.MkdirAll(replayDir, 0o755)
	// remove stale replay files of this property
	if old, _ := filepath.Glob(filepath.Join(replayDir, *prop+"-*.json")); old != nil {
		for _, f := range old {
			os.Remove(f)
		}
	}

	type hEv struct {
		Harness    string         `json:"harness"`
		Params     map[string]int `json:"params"`
		Bound      string         `json:"bound"`
		Paths      int            `json:"paths"`
		Status     map[string]int `json:"path_status"`
		Decisions  int            `json:"solver_decided_branches"`
		Obligs     int            `json:"assertions_checked"`
		Discharged int            `json:"assertions_discharged"`
		Trivial    int            `json:"assertions_discharged_by_term_rewriting"`
		Unknown    int            `json:"solver_unknown"`
		SolverS    float64        `json:"solver_s"`
		Checks     int            `json:"solver_checks"`
		WallS      float64        `json:"wall_s"`
		NFuncs     int            `json:"functions_entered"`
		Incon      []string       `json:"inconclusive,omitempty"`
		Witness    []string       `json:"witness_replays,omitempty"`
	}
	var hevs []hEv
	funcs := map[string]bool{}
	var samples []interface{}
	totalPaths, totalDec, totalOb, totalDis, totalUnknown, validated := 0, 0, 0, 0, 0, 0
	totalBranchQ := 0
	crossRuns, crossAgree := 0, 0
	var solverS float64
	var inconclusive []string
	violations := 0
	knownHits := map[int]bool{}
	var violLines []string
	nRep := 0

	for _, hc := range cfg.Harnesses {
		if *only != "" && !strings.Contains(hc.Name, *only) {
			continue
		}
		base := hc.Quick
		if tier == 1 {
			base = mergeParams(hc.Quick, hc.Thorough)
		}
		insts := hc.Instances
		if tier == 0 && hc.QuickInstances != nil {
			insts = hc.QuickInstances
		}
		if len(insts) == 0 {
			insts = []map[string]int{{}}
		}
		for _, inst := range insts {
			params := mergeParams(base, inst)
			e.params = params
			e.solverKind = envOr("SYMGO_SOLVER", "z3-new")
			if hc.Solver != "" {
				e.solverKind = hc.Solver
			}
			if v, ok := params["_loop"]; ok {
				e.loopBound = v
			} else {
				e.loopBound = 600
			}
			if v, ok := params["_timeout_ms"]; ok {
				e.timeoutMs = v
			} else {
				e.timeoutMs = 60000
			}
			h, err := e.findHarness(hc.Name)
			if err != nil {
				fmt.Println("INCONCLUSIVE", err)
				inconclusive = append(inconclusive, err.Error())
				continue
			}
			budget := 900
			if v, ok := params["_budget_s"]; ok {
				budget = v
			}
			res := e.Explore(h, *workers, 0, time.Duration(budget)*time.Second)
			if res.MaxPaths {
				inconclusive = append(inconclusive, fmt.Sprintf("%s: exploration stopped after the %d s budget with paths left", hc.Name, budget))
			}
			fmt.Println(res.Summary())
			ev := hEv{Harness: hc.Name, Params: params, Bound: hc.Bound, Paths: res.Paths, Status: res.Status,
				Decisions: res.Decisions, Obligs: res.AssertQ + res.AssertTriv, Discharged: res.AssertOK, Trivial: res.AssertTriv,
				Unknown: res.Unknown, SolverS: res.SolverS, Checks: res.SolverChecks, WallS: res.WallS, NFuncs: len(res.Funcs)}
			for f := range res.Funcs {
				funcs[f] = true
			}
			totalPaths += res.Paths
			totalDec += res.Decisions
			totalBranchQ += res.BranchQ
			totalOb += res.AssertQ + res.AssertTriv
			totalDis += res.AssertOK
			totalUnknown += res.Unknown
			solverS += res.SolverS
			for _, s := range res.Inconcl {
				msg := hc.Name + ": " + s
				if len(msg) > 1500 {
					msg = msg[:1500]
				}
				inconclusive = append(inconclusive, msg)
				ev.Incon = append(ev.Incon, s)
			}
			if res.Unknown > 0 {
				inconclusive = append(inconclusive, fmt.Sprintf("%s: %d solver answers were unknown/timeouts", hc.Name, res.Unknown))
			}
			// "diff two solvers": in the thorough tier the harness is explored again with the
			// other back end; path count, obligations and candidate counterexamples must agree
			if tier == 1 && hc.CrossCheck {
				other := "cvc5"
				if e.solverKind == "cvc5" {
					other = "z3-new"
				}
				first := e.solverKind
				e.solverKind = other
				res2 := e.Explore(h, *workers, 0, time.Duration(budget)*time.Second)
				e.solverKind = first
				fmt.Println("  second solver (" + other + "): " + res2.Summary())
				solverS += res2.SolverS
				crossRuns++
				if res2.Paths != res.Paths || len(res2.Violations) != len(res.Violations) || res2.AssertOK != res.AssertOK || res2.Unknown != 0 || len(res2.Inconcl) != 0 {
					inconclusive = append(inconclusive, fmt.Sprintf("%s: solvers disagree: %s paths=%d ok=%d viol=%d unknown=%d vs %s paths=%d ok=%d viol=%d",
						hc.Name, first, res.Paths, res.AssertOK, len(res.Violations), res.Unknown, other, res2.Paths, res2.AssertOK, len(res2.Violations)))
				} else {
					crossAgree++
				}
			}
			// vacuity: every label must have been reached / evaluated
			expR, expA := e.expectedLabels(h)
			for _, l := range expR {
				if !res.Reached[l] && !strings.HasPrefix(l, "?") {
					inconclusive = append(inconclusive, fmt.Sprintf("%s: VACUOUS: marker %q never reached", hc.Name, l))
				}
			}
			for _, l := range expA {
				if res.Asserts[l] == 0 && !strings.HasPrefix(l, "?") {
					inconclusive = append(inconclusive, fmt.Sprintf("%s: VACUOUS: assertion %q never evaluated", hc.Name, l))
				}
			}
			// witness replay: engine and native build must agree that the path completes
			for i, w := range res.Witnesses {
				if i >= 2 {
					break
				}
				nRep++
				tp := filepath.Join(scratch, fmt.Sprintf("w-%d.json", nRep))
				writeTape(tp, hc.Name, tier, params, w)
				out := rp.replay(hc.Name, tp)
				// harnesses on the real clock (C13) can miss their scheduling allowance on a
				// loaded machine: a witness only has to complete once
				for try := 0; try < 2 && !strings.HasPrefix(out, "REPLAY passed"); try++ {
					out = rp.replay(hc.Name, tp)
				}
				ev.Witness = append(ev.Witness, out)
				if strings.HasPrefix(out, "REPLAY passed") {
					validated++
					if len(samples) < 6 {
						samples = append(samples, map[string]interface{}{"harness": hc.Name, "kind": "reachability witness (solver model of a completed path, replayed natively)", "tape": w})
					}
				} else {
					inconclusive = append(inconclusive, fmt.Sprintf("%s: witness does not replay natively: %s", hc.Name, out))
				}
			}
			// counterexamples: replay natively, report only what reproduces
			// group candidates by signature; a signature is a violation as soon as one of its
			// candidates reproduces natively, and inconclusive only if none does
			bySig := map[string][]Violation{}
			var sigOrder []string
			for _, v := range res.Violations {
				sig := hc.Name + "|" + v.Kind + "|" + v.Label
				if _, ok := bySig[sig]; !ok {
					sigOrder = append(sigOrder, sig)
				}
				bySig[sig] = append(bySig[sig], v)
			}
			for _, sig := range sigOrder {
				confirmedOne := false
				var lastOut string
				var lastV Violation
				for _, v := range bySig[sig] {
					nRep++
					tp := filepath.Join(replayDir, fmt.Sprintf("%s-%s-%d.json", *prop, hc.Name, nRep))
					writeTape(tp, hc.Name, tier, params, v.Tape)
					out := rp.replay(hc.Name, tp)
					lastOut, lastV = out, v
					if !strings.HasPrefix(out, "REPLAY confirmed-") {
						if d := os.Getenv("SYMGO_KEEP_UNCONFIRMED"); d != "" {
							os.MkdirAll(d, 0o755)
							os.Rename(tp, filepath.Join(d, filepath.Base(tp)))
						}
						os.Remove(tp)
						continue
					}
					confirmedOne = true
					validated++
					matched := false
					for ki, k := range known.Findings {
						if k.Property != *prop {
							continue
						}
						if re, err := regexp.Compile(k.Match); err == nil && re.MatchString(sig) {
							matched = true
							if !knownHits[ki] {
								knownHits[ki] = true
								fmt.Printf("KNOWN-FINDING: property=%s %s\n", *prop, k.What)
							}
							break
						}
					}
					samples = append(samples, map[string]interface{}{"harness": hc.Name, "kind": "counterexample replayed natively", "signature": sig, "detail": v.Detail, "native": out, "tape": v.Tape, "known_finding": matched})
					if matched {
						os.Remove(tp)
					} else {
						violations++
						violLines = append(violLines, fmt.Sprintf("VIOLATION property=%s replay=%s", *prop, tp))
						fmt.Printf("  counterexample: %s %s %s -> %s\n", v.Kind, v.Label, v.Detail, out)
					}
					break
				}
				if !confirmedOne && lastV.Kind == "assert" {
					// The solver's model fixes values that natively come out of real HMAC / AES
					// computations (uninterpreted in the encoding), so its witness need not be a
					// native one. Search near it: replay variants of the candidates whose data
					// draws are perturbed, and accept only a native failure of the very same
					// assertion. This confirms (or fails to confirm) a solver verdict; it
					// never decides a property by itself.
					rng := rand.New(rand.NewSource(int64(seed) + int64(nRep)))
					cands := bySig[sig]
					for try := 0; try < 120 && !confirmedOne; try++ {
						v := cands[try%len(cands)]
						tape := perturbTape(v.Tape, rng)
						nRep++
						tp := filepath.Join(replayDir, fmt.Sprintf("%s-%s-%d.json", *prop, hc.Name, nRep))
						writeTape(tp, hc.Name, tier, params, tape)
						out := rp.replay(hc.Name, tp)
						if out != "REPLAY confirmed-assert "+v.Label {
							os.Remove(tp)
							continue
						}
						confirmedOne = true
						validated++
						v.Tape = tape
						matched := false
						for ki, k := range known.Findings {
							if k.Property != *prop {
								continue
							}
							if re, err := regexp.Compile(k.Match); err == nil && re.MatchString(sig) {
								matched = true
								if !knownHits[ki] {
									knownHits[ki] = true
									fmt.Printf("KNOWN-FINDING: property=%s %s\n", *prop, k.What)
								}
								break
							}
						}
						samples = append(samples, map[string]interface{}{"harness": hc.Name, "kind": "counterexample replayed natively (variant of the solver's model found by perturbing its data draws)", "signature": sig, "detail": v.Detail, "native": out, "tape": tape, "known_finding": matched})
						if matched {
							os.Remove(tp)
						} else {
							violations++
							violLines = append(violLines, fmt.Sprintf("VIOLATION property=%s replay=%s", *prop, tp))
							fmt.Printf("  counterexample: %s %s %s -> %s (variant %d of the solver's model)\n", v.Kind, v.Label, v.Detail, out, try+1)
						}
					}
				}
				if !confirmedOne {
					msg := fmt.Sprintf("%s: UNCONFIRMED counterexample (%s %s; %d candidates): native run says %q", hc.Name, lastV.Kind, lastV.Label, len(bySig[sig]), lastOut)
					fmt.Println(msg)
					inconclusive = append(inconclusive, msg)
				}
			}
			hevs = append(hevs, ev)
		}
	}

	var fnames []string
	nRepo := 0
	for f := range funcs {
		if strings.Contains(f, modPath) {
			nRepo++
			fnames = append(fnames, f)
		}
	}
	sort.Strings(fnames)
	if len(samples) == 0 {
		samples = append(samples, map[string]interface{}{"note": "no path completed"})
	}
	wall := time.Since(t0).Seconds()
	evidence := map[string]interface{}{
		"property_id": *prop,
		"tier":        *tierS,
		"seed":        seed,
		"level":       "model_checking",
		"coverage": map[string]interface{}{
			"states":                        totalPaths,
			"transitions":                   totalDec,
			"traces_validated_against_impl": validated,
			"samples":                       samples,
			"solver_branch_queries":         totalBranchQ,
			"obligations":                   totalOb,
			"discharged":                    totalDis,
			"explanation":                   "bounded symbolic execution of the go/ssa form of /repo's working tree; states = complete symbolic paths, transitions = edges of the explored decision tree (branch, geometry and case-split decisions; those needing the solver are counted in solver_branch_queries), obligations = vAssert sites evaluated on those paths (each either rewritten to true by the term builder or proved by an unsat answer for PC ∧ ¬cond)",
			"harnesses":                     hevs,
			"functions_encoded_repo":        fnames,
			"functions_encoded_total":       len(funcs),
			"solver":                        e.solverKind,
			"solver_s":                      solverS,
			"second_solver_runs":            crossRuns,
			"second_solver_agreements":      crossAgree,
			"load_and_build_ssa_s":          loadS,
			"inconclusive":                  inconclusive,
			"outside_the_claim":             cfg.Outside,
			"exhaustive":                    false,
		},
		"assumptions": cfg.Assumptions,
		"wall_s":      wall,
		"violations":  violations,
	}
	if !*noEvidence {
		os.MkdirAll(filepath.Join(*verif, "evidence"), 0o755)
		eb, _ := json.MarshalIndent(evidence, "", " ")
		os.WriteFile(filepath.Join(*verif, "evidence", *prop+".json"), eb, 0o644)
	}
	for _, l := range violLines {
		fmt.Println(l)
	}
	fmt.Printf("property=%s tier=%s paths=%d decisions=%d obligations=%d discharged=%d replayed=%d violations=%d inconclusive=%d wall=%.1fs\n",
		*prop, *tierS, totalPaths, totalDec, totalOb, totalDis, validated, violations, len(inconclusive), wall)
	os.RemoveAll(scratch)
	if violations > 0 {
		os.Exit(1)
	}
	if len(inconclusive) > 0 {
		for _, s := range inconclusive {
			fmt.Println("INCONCLUSIVE:", s)
		}
		os.Exit(2)
	}
	os.Exit(0)
}

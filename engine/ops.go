package main

import (
	"fmt"
	"go/token"
	"go/types"
)

func (ex *Exec) binop(fr *frame, op token.Token, xt types.Type, x, y Value, pos token.Pos) Value {
	tt := ex.tt
	switch op {
	case token.EQL:
		return ex.equal(x, y)
	case token.NEQ:
		return tt.BNot(ex.equal(x, y))
	}
	// strings
	switch xs := x.(type) {
	case string, SymStr:
		switch op {
		case token.ADD:
			if a, ok := x.(string); ok {
				if b, ok := y.(string); ok {
					return a + b
				}
			}
			if _, ok := y.(*OpaqueStr); ok {
				return &OpaqueStr{format: "concat", args: []Value{x, y}}
			}
			return mkStr(append(append([]*Term{}, ex.strBytes(x)...), ex.strBytes(y)...))
		case token.LSS, token.LEQ, token.GTR, token.GEQ:
			a, okA := x.(string)
			b, okB := y.(string)
			if okA && okB {
				switch op {
				case token.LSS:
					return tt.Bool(a < b)
				case token.LEQ:
					return tt.Bool(a <= b)
				case token.GTR:
					return tt.Bool(a > b)
				case token.GEQ:
					return tt.Bool(a >= b)
				}
			}
			ex.unsupported("ordering comparison of symbolic strings")
		}
		_ = xs
	case *OpaqueStr:
		if op == token.ADD {
			return &OpaqueStr{format: "concat", args: []Value{x, y}}
		}
		ex.unsupported("operation on opaque string")
	}
	a, okA := x.(*Term)
	b, okB := y.(*Term)
	if !okA || !okB {
		panic(fmt.Sprintf("binop %v on %T, %T", op, x, y))
	}
	if a.sort.K == SBool {
		switch op {
		case token.AND, token.LAND:
			return tt.BAnd(a, b)
		case token.OR, token.LOR:
			return tt.BOr(a, b)
		}
		panic("bool binop " + op.String())
	}
	if a.sort.K == SFP {
		switch op {
		case token.ADD:
			return tt.FBin(OFAdd, a, b)
		case token.SUB:
			return tt.FBin(OFSub, a, b)
		case token.MUL:
			return tt.FBin(OFMul, a, b)
		case token.QUO:
			return tt.FBin(OFDiv, a, b)
		case token.LSS:
			return tt.FCmp(OFLt, a, b)
		case token.LEQ:
			return tt.FCmp(OFLe, a, b)
		case token.GTR:
			return tt.FCmp(OFLt, b, a)
		case token.GEQ:
			return tt.FCmp(OFLe, b, a)
		}
		panic("float binop " + op.String())
	}
	signed := isSigned(xt)
	w := a.sort.W
	switch op {
	case token.ADD:
		return tt.Bin(OAdd, a, b)
	case token.SUB:
		return tt.Bin(OSub, a, b)
	case token.MUL:
		return tt.Bin(OMul, a, b)
	case token.QUO, token.REM:
		z := tt.Eq(b, tt.BV(w, 0))
		if ex.branch(z) {
			panic(&progPanic{kind: "divide", msg: "integer divide by zero", pos: ex.posOf(pos), fn: fr.fn.String(),
				val: Iface{t: types.Typ[types.String], v: "runtime error: integer divide by zero"}})
		}
		if op == token.QUO {
			if signed {
				return tt.Bin(OSDiv, a, b)
			}
			return tt.Bin(OUDiv, a, b)
		}
		if signed {
			return tt.Bin(OSRem, a, b)
		}
		return tt.Bin(OURem, a, b)
	case token.AND:
		return tt.Bin(OAnd, a, b)
	case token.OR:
		return tt.Bin(OOr, a, b)
	case token.XOR:
		return tt.Bin(OXor, a, b)
	case token.AND_NOT:
		return tt.Bin(OAnd, a, tt.Not(b))
	case token.SHL, token.SHR:
		// shift count has its own type/width; Go: count >= width gives 0 (or sign fill)
		bw := b.sort.W
		var cnt *Term
		var big *Term // count >= w
		if bw > w {
			big = tt.Cmp(OUle, tt.BV(bw, uint64(w)), b)
			cnt = tt.Extract(b, w-1, 0)
		} else {
			cnt = tt.ZExt(b, w-bw)
			big = tt.Cmp(OUle, tt.BV(w, uint64(w)), cnt)
		}
		var r *Term
		switch {
		case op == token.SHL:
			r = tt.Ite(big, tt.BV(w, 0), tt.Bin(OShl, a, cnt))
		case signed:
			r = tt.Ite(big, tt.Bin(OAShr, a, tt.BV(w, uint64(w-1))), tt.Bin(OAShr, a, cnt))
		default:
			r = tt.Ite(big, tt.BV(w, 0), tt.Bin(OLShr, a, cnt))
		}
		return r
	case token.LSS:
		if signed {
			return tt.Cmp(OSlt, a, b)
		}
		return tt.Cmp(OUlt, a, b)
	case token.LEQ:
		if signed {
			return tt.Cmp(OSle, a, b)
		}
		return tt.Cmp(OUle, a, b)
	case token.GTR:
		if signed {
			return tt.Cmp(OSlt, b, a)
		}
		return tt.Cmp(OUlt, b, a)
	case token.GEQ:
		if signed {
			return tt.Cmp(OSle, b, a)
		}
		return tt.Cmp(OUle, b, a)
	}
	panic("binop " + op.String())
}

// equal returns a Bool term for x == y under Go's comparison rules.
func (ex *Exec) equal(x, y Value) *Term {
	tt := ex.tt
	switch a := x.(type) {
	case *Term:
		b := y.(*Term)
		if a.sort.K == SFP {
			return tt.FCmp(OFEq, a, b)
		}
		return tt.Eq(a, b)
	case string:
		switch b := y.(type) {
		case string:
			return tt.Bool(a == b)
		case SymStr:
			return ex.bytesEqual(ex.strBytes(a), []*Term(b))
		case *OpaqueStr:
			return tt.Bool(false)
		}
	case SymStr:
		switch b := y.(type) {
		case string, SymStr:
			return ex.bytesEqual([]*Term(a), ex.strBytes(b))
		case *OpaqueStr:
			return tt.Bool(false)
		}
	case *OpaqueStr:
		if b, ok := y.(*OpaqueStr); ok {
			if a == b {
				return tt.Bool(true)
			}
			if a.format != b.format || len(a.args) != len(b.args) {
				return tt.Bool(false)
			}
			acc := tt.Bool(true)
			for i := range a.args {
				acc = tt.BAnd(acc, ex.equalLoose(a.args[i], b.args[i]))
			}
			return acc
		}
		return tt.Bool(false)
	case *Value:
		b, _ := y.(*Value)
		return tt.Bool(a == b)
	case Struct:
		b := y.(Struct)
		acc := tt.Bool(true)
		for i := range a {
			acc = tt.BAnd(acc, ex.equal(a[i], b[i]))
		}
		return acc
	case Array:
		b := y.(Array)
		acc := tt.Bool(true)
		for i := range a {
			acc = tt.BAnd(acc, ex.equal(a[i], b[i]))
		}
		return acc
	case Iface:
		b, ok := y.(Iface)
		if !ok {
			panic(fmt.Sprintf("equal Iface vs %T", y))
		}
		if a.t == nil || b.t == nil {
			return tt.Bool(a.t == nil && b.t == nil)
		}
		if !types.Identical(a.t, b.t) {
			return tt.Bool(false)
		}
		return ex.equal(a.v, b.v)
	case *Map:
		b, _ := y.(*Map)
		return tt.Bool(a == b) // only comparison with nil is legal
	case Slice:
		b, _ := y.(Slice)
		return tt.Bool(a.data == nil && b.data == nil)
	case nil:
		return tt.Bool(isNilValue(y))
	case *Closure:
		return tt.Bool(y != nil && false)
	}
	if isNilValue(y) {
		return tt.Bool(isNilValue(x))
	}
	if so, ok := x.(StubObject); ok {
		if so2, ok := y.(StubObject); ok {
			return tt.Bool(so == so2)
		}
	}
	panic(fmt.Sprintf("equal: unsupported operands %T, %T", x, y))
}

// equalLoose compares arbitrary values structurally, false when incomparable.
func (ex *Exec) equalLoose(x, y Value) (res *Term) {
	defer func() {
		if r := recover(); r != nil {
			if _, ok := r.(*pathEnd); ok {
				panic(r)
			}
			res = ex.tt.Bool(false)
		}
	}()
	return ex.equal(x, y)
}

func isNilValue(v Value) bool {
	switch x := v.(type) {
	case nil:
		return true
	case *Value:
		return x == nil
	case *Map:
		return x == nil
	case Slice:
		return x.data == nil
	case Iface:
		return x.t == nil
	case *Closure:
		return x == nil
	}
	return false
}

func (ex *Exec) bytesEqual(a, b []*Term) *Term {
	if len(a) != len(b) {
		return ex.tt.Bool(false)
	}
	acc := ex.tt.Bool(true)
	for i := range a {
		acc = ex.tt.BAnd(acc, ex.tt.Eq(a[i], b[i]))
		if acc.IsConst() && acc.cval == 0 {
			return acc
		}
	}
	return acc
}

// conv implements ssa.Convert.
func (ex *Exec) conv(fr *frame, dstT, srcT types.Type, x Value, pos token.Pos) Value {
	tt := ex.tt
	du, su := under(dstT), under(srcT)
	// unsafe.Pointer <-> pointer conversions
	if db, ok := du.(*types.Basic); ok && db.Kind() == types.UnsafePointer {
		return x
	}
	if sb, ok := su.(*types.Basic); ok && sb.Kind() == types.UnsafePointer {
		return x
	}
	switch d := du.(type) {
	case *types.Basic:
		switch {
		case d.Info()&types.IsInteger != 0:
			t, ok := x.(*Term)
			if !ok {
				panic(fmt.Sprintf("conv to int from %T", x))
			}
			if t.sort.K == SFP {
				return tt.FToInt(t, intWidth(d), d.Info()&types.IsUnsigned == 0)
			}
			return tt.Resize(t, intWidth(d), isSigned(srcT))
		case d.Info()&types.IsFloat != 0:
			t := x.(*Term)
			if t.sort.K == SFP {
				if d.Kind() == types.Float32 {
					ex.unsupported("float32 conversion")
				}
				return t
			}
			if !t.IsConst() && t.sort.W <= 64 {
				// small-range integers (counts, lengths) are case-split before entering
				// floating point, which keeps the float arithmetic on them concrete
				if lo, hi, ok := urange(t); ok && hi-lo < 64 {
					t = tt.BV(t.sort.W, ex.concretize(t, "small-range integer converted to float64"))
				}
			}
			return tt.FFromInt(t, isSigned(srcT))
		case d.Info()&types.IsString != 0:
			switch v := x.(type) {
			case string, SymStr, *OpaqueStr:
				return v
			case Slice:
				// []byte or []rune -> string
				if eb, ok := under(su.(*types.Slice).Elem()).(*types.Basic); ok && eb.Kind() == types.Uint8 {
					bs := make([]*Term, len(v.data))
					for i, e := range v.data {
						bs[i] = e.(*Term)
					}
					return mkStr(bs)
				}
				// []rune -> string: only runes that are provably single-byte (ASCII)
				bs := make([]*Term, 0, len(v.data))
				for _, e := range v.data {
					r := e.(*Term)
					if r.IsConst() {
						for _, c := range []byte(string(rune(int32(r.cval)))) {
							bs = append(bs, tt.BV(8, uint64(c)))
						}
						continue
					}
					if !ex.branch(tt.Cmp(OUlt, r, tt.BV(r.sort.W, 0x80))) {
						ex.unsupported("string([]rune) with a symbolic non-ASCII rune")
					}
					bs = append(bs, tt.Extract(r, 7, 0))
				}
				return mkStr(bs)
			case *Term:
				// string(rune)
				if v.IsConst() {
					return string(rune(v.cval))
				}
				ex.unsupported("string(symbolic rune)")
			}
		}
	case *types.Slice:
		switch v := x.(type) {
		case string, SymStr:
			eb, ok := under(d.Elem()).(*types.Basic)
			if !ok || eb.Kind() != types.Uint8 {
				ex.unsupported("string to []rune")
			}
			bs := ex.strBytes(v)
			data := make([]Value, len(bs))
			for i, b := range bs {
				data[i] = b
			}
			if len(data) == 0 {
				data = make([]Value, 0)
			}
			return Slice{data: data}
		case Slice:
			return v
		case *OpaqueStr:
			ex.unsupported("[]byte(opaque formatted string)")
		}
	case *types.Pointer, *types.Signature, *types.Map, *types.Chan, *types.Struct, *types.Array, *types.Interface:
		return x
	}
	ex.unsupported(fmt.Sprintf("conversion %s -> %s", typeString(srcT), typeString(dstT)))
	return nil
}

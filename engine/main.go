package main

import (
	"encoding/json"
	"flag"
	"fmt"
	"os"
	"runtime"
	"runtime/pprof"
	"sort"
	"strings"
	"time"
)

func envOr(k, d string) string {
	if v := os.Getenv(k); v != "" {
		return v
	}
	return d
}

func newEngine(repo, verif string, tier int) *Engine {
	return &Engine{
		repo: repo, verifDir: verif, tier: tier,
		loopBound: 600, stepBudget: 20_000_000, concCap: 700,
		solverKind: envOr("SYMGO_SOLVER", "z3-new"), timeoutMs: 60000,
		params: map[string]int{}, wantWitness: true,
	}
}

func main() {
	if p := os.Getenv("SYMGO_CPUPROF"); p != "" {
		f, _ := os.Create(p)
		pprof.StartCPUProfile(f)
		go func() {
			time.Sleep(45 * time.Second)
			pprof.StopCPUProfile()
			f.Close()
		}()
	}
	if len(os.Args) < 2 {
		fmt.Fprintln(os.Stderr, "usage: symgo run|check ...")
		os.Exit(2)
	}
	switch os.Args[1] {
	case "run":
		cmdRun(os.Args[2:])
	case "check":
		cmdCheck(os.Args[2:])
	default:
		fmt.Fprintln(os.Stderr, "unknown command", os.Args[1])
		os.Exit(2)
	}
}

func cmdRun(args []string) {
	fs := flag.NewFlagSet("run", flag.ExitOnError)
	harness := fs.String("harness", "", "comma-separated harness names <pkgdir>.<Func>")
	tier := fs.String("tier", "quick", "quick|thorough")
	repo := fs.String("repo", envOr("VERIF_REPO", "/repo"), "repository")
	verif := fs.String("verif", envOr("VERIF_DIR", "/verif"), "verif dir")
	workers := fs.Int("workers", runtime.NumCPU(), "workers")
	maxPaths := fs.Int("maxpaths", 0, "stop after this many paths (inconclusive)")
	params := fs.String("params", "", "k=v,k=v harness parameters")
	dump := fs.Bool("json", false, "dump result json")
	fs.Parse(args)
	t := 0
	if *tier == "thorough" {
		t = 1
	}
	if os.Getenv("SYMGO_BRANCHPROF") != "" {
		branchProf = map[string]int{}
		defer func() {}()
	}
	e := newEngine(*repo, *verif, t)
	for _, kv := range strings.Split(*params, ",") {
		if kv == "" {
			continue
		}
		p := strings.SplitN(kv, "=", 2)
		var v int
		fmt.Sscan(p[1], &v)
		e.params[p[0]] = v
	}
	t0 := time.Now()
	if err := e.Load(); err != nil {
		fmt.Fprintln(os.Stderr, "load:", err)
		os.Exit(2)
	}
	fmt.Fprintf(os.Stderr, "loaded in %.1fs\n", time.Since(t0).Seconds())
	code := 0
	for _, hn := range strings.Split(*harness, ",") {
		h, err := e.findHarness(hn)
		if err != nil {
			fmt.Fprintln(os.Stderr, err)
			os.Exit(2)
		}
		res := e.Explore(h, *workers, *maxPaths, 0)
		fmt.Println(res.Summary())
		for _, s := range res.Inconcl {
			fmt.Println("  INCONCLUSIVE:", s)
			code = 2
		}
		for _, v := range res.Violations {
			b, _ := json.Marshal(v.Tape)
			fmt.Printf("  CANDIDATE %s %s %s\n    tape=%s\n", v.Kind, v.Label, v.Detail, b)
			if code == 0 {
				code = 1
			}
		}
		if *dump {
			b, _ := json.MarshalIndent(res, "", " ")
			fmt.Println(string(b))
		}
	}
	if branchProf != nil {
		type kv struct {
			k string
			v int
		}
		var l []kv
		for k, v := range branchProf {
			l = append(l, kv{k, v})
		}
		sort.Slice(l, func(i, j int) bool { return l[i].v > l[j].v })
		for i, x := range l {
			if i > 25 {
				break
			}
			fmt.Printf("  BRANCHPROF %6d %s\n", x.v, x.k)
		}
	}
	os.Exit(code)
}

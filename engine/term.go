package main

// Hash-consed SMT term DAG with constant folding. One TermTable per path
// execution; terms are never shared between paths or workers.

import (
	"fmt"
	"math"
	"math/bits"
	"sort"
	"strconv"
	"strings"
)

type SortKind uint8

const (
	SBool SortKind = iota
	SBV
	SFP // float64
)

type Sort struct {
	K SortKind
	W int // bit width for SBV
}

func (s Sort) String() string {
	switch s.K {
	case SBool:
		return "Bool"
	case SBV:
		return fmt.Sprintf("(_ BitVec %d)", s.W)
	case SFP:
		return "(_ FloatingPoint 11 53)"
	}
	return "?"
}

var boolSort = Sort{K: SBool}
var fpSort = Sort{K: SFP}

func bv(w int) Sort { return Sort{K: SBV, W: w} }

type Op uint8

const (
	OConst Op = iota
	OVar
	OAdd
	OSub
	OMul
	OUDiv
	OURem
	OSDiv
	OSRem
	OAnd
	OOr
	OXor
	ONot
	ONeg
	OShl
	OLShr
	OAShr
	OExtract // p1=hi p2=lo
	OConcat
	OZExt // p1 = extra bits
	OSExt
	OIte
	OEq
	OUlt
	OUle
	OSlt
	OSle
	OBAnd
	OBOr
	OBNot
	OUF // name, args
	// floating point
	OFAdd
	OFSub
	OFMul
	OFDiv
	OFNeg
	OFAbs
	OFSqrt
	OFLt
	OFLe
	OFEq
	OFFromS  // signed bv -> fp
	OFFromU  // unsigned bv -> fp
	OFToS    // fp -> signed bv (p1 = width), RTZ
	OFToU    // fp -> unsigned bv
	OFFromBV // reinterpret 64 bits as fp
	OFRound  // p1: 0=ceil(RTP) 1=floor(RTN) 2=trunc(RTZ)
	OFIsNaN
)

var opNames = map[Op]string{
	OAdd: "bvadd", OSub: "bvsub", OMul: "bvmul", OUDiv: "bvudiv", OURem: "bvurem", OSDiv: "bvsdiv", OSRem: "bvsrem",
	OAnd: "bvand", OOr: "bvor", OXor: "bvxor", ONot: "bvnot", ONeg: "bvneg", OShl: "bvshl", OLShr: "bvlshr", OAShr: "bvashr",
	OConcat: "concat", OIte: "ite", OEq: "=", OUlt: "bvult", OUle: "bvule", OSlt: "bvslt", OSle: "bvsle",
	OBAnd: "and", OBOr: "or", OBNot: "not",
	OFAdd: "fp.add RNE", OFSub: "fp.sub RNE", OFMul: "fp.mul RNE", OFDiv: "fp.div RNE", OFNeg: "fp.neg", OFAbs: "fp.abs",
	OFSqrt: "fp.sqrt RNE", OFLt: "fp.lt", OFLe: "fp.leq", OFEq: "fp.eq", OFIsNaN: "fp.isNaN",
}

type Term struct {
	op      Op
	sort    Sort
	args    []*Term
	cval    uint64 // constant value (BV up to 64 bits, Bool 0/1, FP bits)
	p1, p2  int
	name    string
	id      int
	emitted bool
	nz      uint64 // possibly-non-zero bits (valid when nzOK)
	nzOK    bool
	wide    []byte // for constants wider than 64 bits: big-endian bytes (only produced by concat folding)
}

func (t *Term) IsConst() bool { return t.op == OConst }
func (t *Term) W() int        { return t.sort.W }

type TermTable struct {
	pinned map[*Term]*Term // terms fixed to a constant by the path condition
	tab    map[string]*Term
	nextID int
	vars   []*Term          // declared variables in creation order
	ufs    map[string]*Term // representative application per UF name (for declaration)
	axioms []*Term          // ground axioms to assert (instance axioms for UFs)
	axSent int
}

func NewTermTable() *TermTable {
	return &TermTable{tab: map[string]*Term{}, ufs: map[string]*Term{}, pinned: map[*Term]*Term{}}
}

// ones returns a mask of the bits of t (width <= 64) that may be non-zero.
func ones(t *Term) uint64 {
	w := t.sort.W
	if t.sort.K != SBV || w > 64 {
		return ^uint64(0)
	}
	if t.op == OConst {
		return t.cval
	}
	if t.nzOK {
		return t.nz
	}
	m := mask(w)
	var r uint64
	switch t.op {
	case OZExt:
		r = ones(t.args[0])
	case OConcat:
		lw := t.args[1].sort.W
		if t.args[0].sort.W > 64 || lw > 64 {
			r = m
		} else {
			r = ones(t.args[0])<<uint(lw) | ones(t.args[1])
		}
	case OExtract:
		if t.args[0].sort.W > 64 {
			r = m
		} else {
			r = (ones(t.args[0]) >> uint(t.p2)) & m
		}
	case OAnd:
		r = ones(t.args[0]) & ones(t.args[1])
	case OOr, OXor:
		r = ones(t.args[0]) | ones(t.args[1])
	case OIte:
		r = ones(t.args[1]) | ones(t.args[2])
	default:
		r = m
	}
	r &= m
	t.nz, t.nzOK = r, true
	return r
}

// mergeDisjoint builds a | b for operands whose possibly-non-zero bits do not overlap
// as a concatenation of bit fields, which is the canonical form of assembled words.
func (tt *TermTable) mergeDisjoint(a, b *Term) *Term {
	w := a.sort.W
	na, nb := ones(a), ones(b)
	var res *Term
	i := w - 1
	for i >= 0 {
		owner := 0
		if na>>uint(i)&1 == 1 {
			owner = 1
		} else if nb>>uint(i)&1 == 1 {
			owner = 2
		}
		j := i
		for j-1 >= 0 {
			o := 0
			if na>>uint(j-1)&1 == 1 {
				o = 1
			} else if nb>>uint(j-1)&1 == 1 {
				o = 2
			}
			if o != owner {
				break
			}
			j--
		}
		var piece *Term
		switch owner {
		case 0:
			piece = tt.BV(i-j+1, 0)
		case 1:
			piece = tt.Extract(a, i, j)
		case 2:
			piece = tt.Extract(b, i, j)
		}
		if res == nil {
			res = piece
		} else {
			res = tt.Concat(res, piece)
		}
		i = j - 1
	}
	return res
}

// rep replaces a term that the path condition pins to a constant by that constant.
func (tt *TermTable) rep(t *Term) *Term {
	if t.op == OConst || len(tt.pinned) == 0 {
		return t
	}
	if c, ok := tt.pinned[t]; ok {
		return c
	}
	return t
}

// Pin records that the path condition implies t == c (c constant).
func (tt *TermTable) Pin(t, c *Term) {
	if t.op == OConst || c.op != OConst {
		return
	}
	tt.pinned[t] = c
	if t.sort.K != SBV || t.sort.W > 64 || c.wide != nil {
		return
	}
	switch t.op {
	case OZExt:
		iw := t.args[0].sort.W
		tt.Pin(t.args[0], tt.BV(iw, c.cval))
	case OConcat:
		lw := t.args[1].sort.W
		tt.Pin(t.args[1], tt.BV(lw, c.cval))
		tt.Pin(t.args[0], tt.BV(t.args[0].sort.W, c.cval>>uint(lw)))
	case OSExt:
		iw := t.args[0].sort.W
		tt.Pin(t.args[0], tt.BV(iw, c.cval))
	}
}

func mask(w int) uint64 {
	if w >= 64 {
		return ^uint64(0)
	}
	return (uint64(1) << uint(w)) - 1
}

func (tt *TermTable) mk(op Op, sort Sort, p1, p2 int, name string, args ...*Term) *Term {
	var sb strings.Builder
	sb.WriteString(strconv.Itoa(int(op)))
	sb.WriteByte(':')
	sb.WriteString(strconv.Itoa(sort.W))
	sb.WriteByte(':')
	sb.WriteString(strconv.Itoa(p1))
	sb.WriteByte(':')
	sb.WriteString(strconv.Itoa(p2))
	sb.WriteByte(':')
	sb.WriteString(name)
	for _, a := range args {
		sb.WriteByte(',')
		if a.op == OConst {
			sb.WriteByte('c')
			sb.WriteString(strconv.Itoa(int(a.sort.K)))
			sb.WriteByte('_')
			sb.WriteString(strconv.Itoa(a.sort.W))
			sb.WriteByte('_')
			sb.WriteString(strconv.FormatUint(a.cval, 16))
			if a.wide != nil {
				sb.WriteString(fmt.Sprintf("%x", a.wide))
			}
		} else {
			sb.WriteString(strconv.Itoa(a.id))
		}
	}
	k := sb.String()
	if t, ok := tt.tab[k]; ok {
		return t
	}
	tt.nextID++
	t := &Term{op: op, sort: sort, args: args, p1: p1, p2: p2, name: name, id: tt.nextID}
	tt.tab[k] = t
	return t
}

// ---- constants ----

var (
	constTrue   = &Term{op: OConst, sort: boolSort, cval: 1}
	constFalse  = &Term{op: OConst, sort: boolSort, cval: 0}
	smallConsts [65][]*Term
)

func init() {
	for _, w := range []int{1, 8, 16, 32, 64} {
		n := 257
		if w == 1 {
			n = 2
		}
		smallConsts[w] = make([]*Term, n)
		for v := 0; v < n; v++ {
			smallConsts[w][v] = &Term{op: OConst, sort: bv(w), cval: uint64(v)}
		}
	}
}

// constants are immutable and shared between paths and workers
func (tt *TermTable) BV(w int, v uint64) *Term {
	if w > 64 {
		panic("BV const wider than 64 via BV()")
	}
	v &= mask(w)
	if sc := smallConsts[w]; sc != nil && v < uint64(len(sc)) {
		return sc[v]
	}
	return &Term{op: OConst, sort: bv(w), cval: v}
}
func (tt *TermTable) Bool(b bool) *Term {
	if b {
		return constTrue
	}
	return constFalse
}
func (tt *TermTable) FP(f float64) *Term {
	return &Term{op: OConst, sort: fpSort, cval: math.Float64bits(f)}
}
func (t *Term) Float() float64 { return math.Float64frombits(t.cval) }

func (tt *TermTable) Var(name string, s Sort) *Term {
	before := tt.nextID
	t := tt.mk(OVar, s, 0, 0, name)
	if tt.nextID != before {
		tt.vars = append(tt.vars, t)
	}
	return t
}

func signExt(v uint64, w int) int64 {
	if w >= 64 {
		return int64(v)
	}
	sh := uint(64 - w)
	return int64(v<<sh) >> sh
}

// ---- BV ops ----

// addN builds the AC-normal form of a sum: operands flattened, constants folded,
// non-constant operands sorted by id.
func (tt *TermTable) addN(w int, parts []*Term) *Term {
	var leaves []*Term
	var c uint64
	for _, p := range parts {
		if p.op == OAdd {
			for _, q := range p.args {
				if q.IsConst() {
					c += q.cval
				} else {
					leaves = append(leaves, q)
				}
			}
		} else if p.IsConst() {
			c += p.cval
		} else {
			leaves = append(leaves, p)
		}
	}
	c &= mask(w)
	sort.SliceStable(leaves, func(i, j int) bool { return leaves[i].id < leaves[j].id })
	if len(leaves) == 0 {
		return tt.BV(w, c)
	}
	if c != 0 {
		leaves = append(leaves, tt.BV(w, c))
	}
	if len(leaves) == 1 {
		return leaves[0]
	}
	return tt.mk(OAdd, bv(w), 0, 0, "", leaves...)
}

func (tt *TermTable) Bin(op Op, a, b *Term) *Term {
	a, b = tt.rep(a), tt.rep(b)
	if a.sort != b.sort {
		panic(fmt.Sprintf("sort mismatch in op %d: %v vs %v", op, a.sort, b.sort))
	}
	w := a.sort.W
	if op == OAdd && w <= 64 {
		return tt.addN(w, []*Term{a, b})
	}
	if a.IsConst() && b.IsConst() && w <= 64 {
		x, y := a.cval, b.cval
		switch op {
		case OAdd:
			return tt.BV(w, x+y)
		case OSub:
			return tt.BV(w, x-y)
		case OMul:
			return tt.BV(w, x*y)
		case OUDiv:
			if y != 0 {
				return tt.BV(w, x/y)
			}
		case OURem:
			if y != 0 {
				return tt.BV(w, x%y)
			}
		case OSDiv:
			if y != 0 {
				sx, sy := signExt(x, w), signExt(y, w)
				if !(sy == -1 && sx == math.MinInt64) {
					return tt.BV(w, uint64(sx/sy))
				}
				return tt.BV(w, x)
			}
		case OSRem:
			if y != 0 {
				sx, sy := signExt(x, w), signExt(y, w)
				if sy == -1 {
					return tt.BV(w, 0)
				}
				return tt.BV(w, uint64(sx%sy))
			}
		case OAnd:
			return tt.BV(w, x&y)
		case OOr:
			return tt.BV(w, x|y)
		case OXor:
			return tt.BV(w, x^y)
		case OShl:
			if y >= uint64(w) {
				return tt.BV(w, 0)
			}
			return tt.BV(w, x<<y)
		case OLShr:
			if y >= uint64(w) {
				return tt.BV(w, 0)
			}
			return tt.BV(w, x>>y)
		case OAShr:
			sx := signExt(x, w)
			if y >= uint64(w) {
				y = uint64(w - 1)
			}
			return tt.BV(w, uint64(sx>>y))
		}
	}
	if (op == OOr || op == OXor) && w <= 64 && !a.IsConst() && !b.IsConst() && ones(a)&ones(b) == 0 && ones(a) != 0 && ones(b) != 0 {
		return tt.mergeDisjoint(a, b)
	}
	// identities
	switch op {
	case OAdd, OOr, OXor:
		if a.IsConst() && a.cval == 0 && a.wide == nil {
			return b
		}
		if b.IsConst() && b.cval == 0 && b.wide == nil {
			return a
		}
		if op == OOr && w <= 64 {
			if a.IsConst() && a.cval == mask(w) {
				return a
			}
			if b.IsConst() && b.cval == mask(w) {
				return b
			}
		}
		if op == OOr && a == b {
			return a
		}
		if op == OXor && a == b && w <= 64 {
			return tt.BV(w, 0)
		}
	case OSub:
		if b.IsConst() && b.cval == 0 && b.wide == nil {
			return a
		}
		if a == b && w <= 64 {
			return tt.BV(w, 0)
		}
	case OAnd:
		if w <= 64 {
			if a.IsConst() && a.cval == 0 {
				return a
			}
			if b.IsConst() && b.cval == 0 {
				return b
			}
			if a.IsConst() && a.cval == mask(w) {
				return b
			}
			if b.IsConst() && b.cval == mask(w) {
				return a
			}
			// and with low mask 2^k-1 => zext(extract)
			if b.IsConst() && b.cval != 0 && (b.cval&(b.cval+1)) == 0 {
				k := bits.Len64(b.cval)
				return tt.ZExt(tt.Extract(a, k-1, 0), w-k)
			}
			if a.IsConst() && a.cval != 0 && (a.cval&(a.cval+1)) == 0 {
				k := bits.Len64(a.cval)
				return tt.ZExt(tt.Extract(b, k-1, 0), w-k)
			}
		}
		if a == b {
			return a
		}
	case OMul:
		if w <= 64 && a.op == OSExt && b.op == OSExt {
			// the product of sign-extended narrow values fits in the sum of their widths
			wa, wb := a.args[0].sort.W, b.args[0].sort.W
			if wa+wb < w {
				nw := wa + wb
				p := tt.mk(OMul, bv(nw), 0, 0, "", tt.SExt(a.args[0], nw-wa), tt.SExt(b.args[0], nw-wb))
				return tt.SExt(p, w-nw)
			}
		}
		if w <= 64 {
			if a.IsConst() && a.cval == 1 {
				return b
			}
			if b.IsConst() && b.cval == 1 {
				return a
			}
			if (a.IsConst() && a.cval == 0) || (b.IsConst() && b.cval == 0) {
				return tt.BV(w, 0)
			}
		}
	case OShl:
		if b.IsConst() && w <= 64 {
			c := int(b.cval)
			if b.cval >= uint64(w) {
				return tt.BV(w, 0)
			}
			if c == 0 {
				return a
			}
			return tt.Concat(tt.Extract(a, w-1-c, 0), tt.BV(c, 0))
		}
	case OLShr:
		if b.IsConst() && w <= 64 {
			c := int(b.cval)
			if b.cval >= uint64(w) {
				return tt.BV(w, 0)
			}
			if c == 0 {
				return a
			}
			return tt.ZExt(tt.Extract(a, w-1, c), c)
		}
	case OAShr:
		if b.IsConst() && w <= 64 {
			c := int(b.cval)
			if c == 0 {
				return a
			}
			if b.cval >= uint64(w) {
				c = w - 1
			}
			return tt.SExt(tt.Extract(a, w-1, c), c)
		}
	case OSDiv, OSRem:
		// (x*c1) / c2 and (x*c1) % c2 with c1 | c2 and no overflow possible (x small, non-negative)
		if b.IsConst() && w == 64 && a.op == OMul && a.args[1].IsConst() && a.args[1].cval != 0 && b.cval != 0 &&
			int64(b.cval) > 0 && int64(a.args[1].cval) > 0 && b.cval%a.args[1].cval == 0 {
			x, c1 := a.args[0], a.args[1].cval
			if _, hi, ok := urange(x); ok && hi < (uint64(1)<<62)/c1 {
				q := b.cval / c1
				if op == OSDiv {
					if q == 1 {
						return x
					}
					return tt.Bin(OSDiv, x, tt.BV(w, q))
				}
				if q == 1 {
					return tt.BV(w, 0)
				}
				return tt.Bin(OMul, tt.Bin(OSRem, x, tt.BV(w, q)), tt.BV(w, c1))
			}
		}
		// signed division of a provably non-negative value by a positive constant is unsigned
		if b.IsConst() && w == 64 && int64(b.cval) > 0 {
			if _, hi, ok := urange(a); ok && hi < uint64(1)<<62 {
				if op == OSDiv {
					return tt.Bin(OUDiv, a, b)
				}
				return tt.Bin(OURem, a, b)
			}
		}
	case OUDiv, OURem:
		if b.IsConst() && w <= 64 && b.cval != 0 && (b.cval&(b.cval-1)) == 0 {
			k := bits.TrailingZeros64(b.cval)
			if op == OUDiv {
				if k == 0 {
					return a
				}
				return tt.ZExt(tt.Extract(a, w-1, k), k)
			}
			if k == 0 {
				return tt.BV(w, 0)
			}
			return tt.ZExt(tt.Extract(a, k-1, 0), w-k)
		}
	}
	// canonical order for commutative ops: constant second
	switch op {
	case OAdd, OMul, OAnd, OOr, OXor:
		if a.IsConst() && !b.IsConst() {
			a, b = b, a
		} else if !a.IsConst() && !b.IsConst() && a.id > b.id {
			a, b = b, a
		}
	}
	return tt.mk(op, a.sort, 0, 0, "", a, b)
}

func (tt *TermTable) Not(a *Term) *Term {
	a = tt.rep(a)
	if a.IsConst() && a.sort.W <= 64 {
		return tt.BV(a.sort.W, ^a.cval)
	}
	if a.op == ONot {
		return a.args[0]
	}
	return tt.mk(ONot, a.sort, 0, 0, "", a)
}
func (tt *TermTable) Neg(a *Term) *Term {
	a = tt.rep(a)
	if a.IsConst() && a.sort.W <= 64 {
		return tt.BV(a.sort.W, -a.cval)
	}
	return tt.mk(ONeg, a.sort, 0, 0, "", a)
}

func (tt *TermTable) Extract(a *Term, hi, lo int) *Term {
	a = tt.rep(a)
	w := a.sort.W
	if hi >= w || lo < 0 || hi < lo {
		panic(fmt.Sprintf("bad extract %d %d of width %d", hi, lo, w))
	}
	if lo == 0 && hi == w-1 {
		return a
	}
	nw := hi - lo + 1
	if a.IsConst() {
		if w <= 64 {
			return tt.BV(nw, a.cval>>uint(lo))
		}
		// wide constant
		bs := a.wide
		// bit i (0 = lsb) lives in bs[len-1-i/8]
		if nw <= 64 {
			var v uint64
			for i := 0; i < nw; i++ {
				bi := lo + i
				byt := bs[len(bs)-1-bi/8]
				if byt>>(uint(bi)%8)&1 == 1 {
					v |= 1 << uint(i)
				}
			}
			return tt.BV(nw, v)
		}
	}
	switch a.op {
	case OExtract:
		return tt.Extract(a.args[0], a.p2+hi, a.p2+lo)
	case OConcat:
		lw := a.args[1].sort.W
		if hi < lw {
			return tt.Extract(a.args[1], hi, lo)
		}
		if lo >= lw {
			return tt.Extract(a.args[0], hi-lw, lo-lw)
		}
		return tt.Concat(tt.Extract(a.args[0], hi-lw, 0), tt.Extract(a.args[1], lw-1, lo))
	case OZExt:
		iw := a.args[0].sort.W
		if hi < iw {
			return tt.Extract(a.args[0], hi, lo)
		}
		if lo >= iw {
			return tt.BV(nw, 0)
		}
		return tt.ZExt(tt.Extract(a.args[0], iw-1, lo), hi-iw+1)
	case OSExt:
		iw := a.args[0].sort.W
		if hi < iw {
			return tt.Extract(a.args[0], hi, lo)
		}
	case OAnd, OOr, OXor:
		// push extract through bitwise ops when one side is constant (keeps masks simple)
		if a.args[1].IsConst() || a.args[0].IsConst() {
			return tt.Bin(a.op, tt.Extract(a.args[0], hi, lo), tt.Extract(a.args[1], hi, lo))
		}
	case ONot:
		return tt.Not(tt.Extract(a.args[0], hi, lo))
	case OAdd:
		if lo == 0 && w <= 64 {
			parts := make([]*Term, len(a.args))
			for i, x := range a.args {
				parts[i] = tt.Extract(x, hi, 0)
			}
			return tt.addN(hi+1, parts)
		}
	case OSub, OMul:
		if lo == 0 {
			// low bits of modular arithmetic only depend on low bits of the operands
			return tt.Bin(a.op, tt.Extract(a.args[0], hi, 0), tt.Extract(a.args[1], hi, 0))
		}
	case ONeg:
		if lo == 0 {
			return tt.Neg(tt.Extract(a.args[0], hi, 0))
		}
	case OIte:
		if a.args[1].IsConst() && a.args[2].IsConst() {
			return tt.Ite(a.args[0], tt.Extract(a.args[1], hi, lo), tt.Extract(a.args[2], hi, lo))
		}
	}
	return tt.mk(OExtract, bv(nw), hi, lo, "", a)
}

func (tt *TermTable) Concat(a, b *Term) *Term {
	a, b = tt.rep(a), tt.rep(b)
	w := a.sort.W + b.sort.W
	if a.IsConst() && b.IsConst() {
		if w <= 64 {
			return tt.BV(w, a.cval<<uint(b.sort.W)|b.cval)
		}
		// wide constant
		t := &Term{op: OConst, sort: bv(w)}
		t.wide = wideConcat(a, b)
		return t
	}
	// zero high part => zext
	if a.IsConst() && a.cval == 0 && a.wide == nil {
		return tt.ZExt(b, a.sort.W)
	}
	// merge adjacent extracts of the same term
	if a.op == OExtract && b.op == OExtract && a.args[0] == b.args[0] && a.p2 == b.p1+1 {
		return tt.Extract(a.args[0], a.p1, b.p2)
	}
	// concat(x, concat(y,z)) with x,y adjacent extracts
	if a.op == OExtract && b.op == OConcat && b.args[0].op == OExtract && a.args[0] == b.args[0].args[0] && a.p2 == b.args[0].p1+1 {
		return tt.Concat(tt.Extract(a.args[0], a.p1, b.args[0].p2), b.args[1])
	}
	// concat(concat(x,y), z) with y,z adjacent extracts
	if a.op == OConcat && a.args[1].op == OExtract && b.op == OExtract && a.args[1].args[0] == b.args[0] && a.args[1].p2 == b.p1+1 {
		return tt.Concat(a.args[0], tt.Extract(b.args[0], a.args[1].p1, b.p2))
	}
	return tt.mk(OConcat, bv(w), 0, 0, "", a, b)
}

func wideBytes(t *Term) []byte {
	// big-endian bytes, padded to whole bytes; requires width multiple of 8
	if t.wide != nil {
		return t.wide
	}
	n := (t.sort.W + 7) / 8
	out := make([]byte, n)
	for i := 0; i < n && i < 8; i++ {
		out[n-1-i] = byte(t.cval >> (8 * uint(i)))
	}
	return out
}
func wideConcat(a, b *Term) []byte {
	if a.sort.W%8 != 0 || b.sort.W%8 != 0 {
		panic("wide constant concat of non-byte widths")
	}
	return append(append([]byte{}, wideBytes(a)...), wideBytes(b)...)
}

func (tt *TermTable) ZExt(a *Term, n int) *Term {
	a = tt.rep(a)
	if n == 0 {
		return a
	}
	if n < 0 {
		panic("negative zext")
	}
	if a.IsConst() && a.sort.W+n <= 64 {
		return tt.BV(a.sort.W+n, a.cval)
	}
	if a.op == OZExt {
		return tt.mk(OZExt, bv(a.sort.W+n), a.p1+n, 0, "", a.args[0])
	}
	return tt.mk(OZExt, bv(a.sort.W+n), n, 0, "", a)
}
func (tt *TermTable) SExt(a *Term, n int) *Term {
	a = tt.rep(a)
	if n == 0 {
		return a
	}
	if a.IsConst() && a.sort.W+n <= 64 {
		return tt.BV(a.sort.W+n, uint64(signExt(a.cval, a.sort.W)))
	}
	if a.op == OZExt {
		// sign bit known zero
		return tt.ZExt(a, n)
	}
	return tt.mk(OSExt, bv(a.sort.W+n), n, 0, "", a)
}

// Resize converts a to width w (truncate or extend by signedness).
func (tt *TermTable) Resize(a *Term, w int, signed bool) *Term {
	aw := a.sort.W
	switch {
	case w == aw:
		return a
	case w < aw:
		return tt.Extract(a, w-1, 0)
	case signed:
		return tt.SExt(a, w-aw)
	default:
		return tt.ZExt(a, w-aw)
	}
}

func (tt *TermTable) Ite(c, a, b *Term) *Term {
	c, a, b = tt.rep(c), tt.rep(a), tt.rep(b)
	if c.IsConst() {
		if c.cval == 1 {
			return a
		}
		return b
	}
	if a == b {
		return a
	}
	if a.IsConst() && b.IsConst() && a.sort == b.sort && a.cval == b.cval && a.wide == nil && b.wide == nil {
		return a
	}
	if a.sort.K == SBool && a.IsConst() && b.IsConst() {
		if a.cval == 1 && b.cval == 0 {
			return c
		}
		if a.cval == 0 && b.cval == 1 {
			return tt.BNot(c)
		}
	}
	return tt.mk(OIte, a.sort, 0, 0, "", c, a, b)
}

// ---- comparisons ----

func constEq(a, b *Term) bool {
	if a.wide != nil || b.wide != nil {
		return string(wideBytes(a)) == string(wideBytes(b))
	}
	return a.cval == b.cval
}

func (tt *TermTable) Eq(a, b *Term) *Term {
	a, b = tt.rep(a), tt.rep(b)
	if a.sort != b.sort {
		panic(fmt.Sprintf("Eq sort mismatch %v %v", a.sort, b.sort))
	}
	if a.sort.K == SFP {
		panic("Eq on FP: use FEq")
	}
	if a == b {
		return tt.Bool(true)
	}
	if a.IsConst() && b.IsConst() {
		return tt.Bool(constEq(a, b))
	}
	if a.sort.K == SBool {
		if a.IsConst() {
			a, b = b, a
		}
		if b.IsConst() {
			if b.cval == 1 {
				return a
			}
			return tt.BNot(a)
		}
	}
	if a.sort.K == SBV {
		// (p ^ q) == p  <=>  q == 0
		if a.op == OXor && (a.args[0] == b || a.args[1] == b) && a.sort.W <= 64 {
			other := a.args[0]
			if other == b {
				other = a.args[1]
			}
			return tt.Eq(other, tt.BV(a.sort.W, 0))
		}
		if b.op == OXor && (b.args[0] == a || b.args[1] == a) && a.sort.W <= 64 {
			other := b.args[0]
			if other == a {
				other = b.args[1]
			}
			return tt.Eq(other, tt.BV(a.sort.W, 0))
		}
	}
	if a.sort.K == SBV && a.sort.W <= 64 {
		// x == -s  <=>  x + s == 0
		if a.op == ONeg {
			return tt.Eq(tt.Bin(OAdd, a.args[0], b), tt.BV(a.sort.W, 0))
		}
		if b.op == ONeg {
			return tt.Eq(tt.Bin(OAdd, b.args[0], a), tt.BV(a.sort.W, 0))
		}
	}
	if a.IsConst() {
		a, b = b, a
	}
	if b.IsConst() && a.sort.K == SBV && a.sort.W <= 64 {
		// zext(x) == c
		if a.op == OZExt {
			iw := a.args[0].sort.W
			if b.cval>>uint(iw) != 0 {
				return tt.Bool(false)
			}
			return tt.Eq(a.args[0], tt.BV(iw, b.cval))
		}
		if a.op == OConcat {
			lw := a.args[1].sort.W
			if lw <= 64 && a.args[0].sort.W <= 64 {
				return tt.BAnd(tt.Eq(a.args[0], tt.BV(a.args[0].sort.W, b.cval>>uint(lw))), tt.Eq(a.args[1], tt.BV(lw, b.cval)))
			}
		}
		if a.op == OIte && a.args[1].IsConst() && a.args[2].IsConst() {
			return tt.Ite(a.args[0], tt.Bool(constEq(a.args[1], b)), tt.Bool(constEq(a.args[2], b)))
		}
	}
	if !a.IsConst() && !b.IsConst() && a.id > b.id {
		a, b = b, a
	}
	return tt.mk(OEq, boolSort, 0, 0, "", a, b)
}

func (tt *TermTable) Cmp(op Op, a, b *Term) *Term {
	a, b = tt.rep(a), tt.rep(b)
	if a.sort != b.sort {
		panic("Cmp sort mismatch")
	}
	w := a.sort.W
	if a.IsConst() && b.IsConst() && w <= 64 {
		x, y := a.cval, b.cval
		switch op {
		case OUlt:
			return tt.Bool(x < y)
		case OUle:
			return tt.Bool(x <= y)
		case OSlt:
			return tt.Bool(signExt(x, w) < signExt(y, w))
		case OSle:
			return tt.Bool(signExt(x, w) <= signExt(y, w))
		}
	}
	if a == b {
		return tt.Bool(op == OUle || op == OSle)
	}
	if w <= 64 {
		// comparisons of zero-extended values against constants: use the known range
		if lo, hi, ok := urange(a); ok {
			if lo2, hi2, ok2 := urange(b); ok2 {
				signedOK := hi < (uint64(1)<<uint(w-1)) && hi2 < (uint64(1)<<uint(w-1))
				if op == OUlt || (op == OSlt && signedOK) {
					if hi < lo2 {
						return tt.Bool(true)
					}
					if lo >= hi2 {
						return tt.Bool(false)
					}
				}
				if op == OUle || (op == OSle && signedOK) {
					if hi <= lo2 {
						return tt.Bool(true)
					}
					if lo > hi2 {
						return tt.Bool(false)
					}
				}
				// narrow the comparison to the inner width when both are zext/const of small range
				if signedOK && (op == OSlt || op == OSle) {
					if op == OSlt {
						op = OUlt
					} else {
						op = OUle
					}
				}
			}
		}
	}
	return tt.mk(op, boolSort, 0, 0, "", a, b)
}

// urange returns a conservative unsigned range of a term of width <= 64.
func urange(t *Term) (lo, hi uint64, ok bool) {
	if t.sort.W > 64 {
		return 0, 0, false
	}
	switch t.op {
	case OConst:
		return t.cval, t.cval, true
	case OZExt:
		iw := t.args[0].sort.W
		if iw < 64 {
			if t.args[0].IsConst() {
				return t.args[0].cval, t.args[0].cval, true
			}
			_, h, ok := urange(t.args[0])
			if ok {
				return 0, h, true
			}
			return 0, mask(iw), true
		}
	case OUDiv:
		if t.args[1].IsConst() && t.args[1].cval != 0 {
			if l, h, ok := urange(t.args[0]); ok {
				return l / t.args[1].cval, h / t.args[1].cval, true
			}
		}
	case OURem:
		if t.args[1].IsConst() && t.args[1].cval != 0 {
			return 0, t.args[1].cval - 1, true
		}
	case OIte:
		l1, h1, ok1 := urange(t.args[1])
		l2, h2, ok2 := urange(t.args[2])
		if ok1 && ok2 {
			if l2 < l1 {
				l1 = l2
			}
			if h2 > h1 {
				h1 = h2
			}
			return l1, h1, true
		}
	}
	return 0, mask(t.sort.W), true
}

// ---- Bool ops ----

func (tt *TermTable) BNot(a *Term) *Term {
	if a.IsConst() {
		return tt.Bool(a.cval == 0)
	}
	if a.op == OBNot {
		return a.args[0]
	}
	return tt.mk(OBNot, boolSort, 0, 0, "", a)
}
func (tt *TermTable) BAnd(a, b *Term) *Term {
	if a.IsConst() {
		if a.cval == 1 {
			return b
		}
		return a
	}
	if b.IsConst() {
		if b.cval == 1 {
			return a
		}
		return b
	}
	if a == b {
		return a
	}
	return tt.mk(OBAnd, boolSort, 0, 0, "", a, b)
}
func (tt *TermTable) BOr(a, b *Term) *Term {
	if a.IsConst() {
		if a.cval == 0 {
			return b
		}
		return a
	}
	if b.IsConst() {
		if b.cval == 0 {
			return a
		}
		return b
	}
	if a == b {
		return a
	}
	return tt.mk(OBOr, boolSort, 0, 0, "", a, b)
}

// ---- UF ----

func (tt *TermTable) UF(name string, res Sort, args ...*Term) *Term {
	t := tt.mk(OUF, res, 0, 0, name, args...)
	if _, ok := tt.ufs[name]; !ok {
		tt.ufs[name] = t
	}
	return t
}

// ---- FP ----

func (tt *TermTable) FBin(op Op, a, b *Term) *Term {
	if a.IsConst() && b.IsConst() {
		x, y := a.Float(), b.Float()
		switch op {
		case OFAdd:
			return tt.FP(x + y)
		case OFSub:
			return tt.FP(x - y)
		case OFMul:
			return tt.FP(x * y)
		case OFDiv:
			return tt.FP(x / y)
		}
	}
	return tt.mk(op, fpSort, 0, 0, "", a, b)
}
func (tt *TermTable) FCmp(op Op, a, b *Term) *Term {
	if a.IsConst() && b.IsConst() {
		x, y := a.Float(), b.Float()
		switch op {
		case OFLt:
			return tt.Bool(x < y)
		case OFLe:
			return tt.Bool(x <= y)
		case OFEq:
			return tt.Bool(x == y)
		}
	}
	return tt.mk(op, boolSort, 0, 0, "", a, b)
}
func (tt *TermTable) FUn(op Op, a *Term, p1 int) *Term {
	if a.IsConst() {
		x := a.Float()
		switch op {
		case OFNeg:
			return tt.FP(-x)
		case OFAbs:
			return tt.FP(math.Abs(x))
		case OFSqrt:
			return tt.FP(math.Sqrt(x))
		case OFRound:
			switch p1 {
			case 0:
				return tt.FP(math.Ceil(x))
			case 1:
				return tt.FP(math.Floor(x))
			case 2:
				return tt.FP(math.Trunc(x))
			}
		case OFIsNaN:
			return tt.Bool(math.IsNaN(x))
		}
	}
	s := fpSort
	if op == OFIsNaN {
		s = boolSort
	}
	return tt.mk(op, s, p1, 0, "", a)
}
func (tt *TermTable) FFromInt(a *Term, signed bool) *Term {
	a = tt.rep(a)
	if signed && a.op == OSExt {
		a = a.args[0] // the value is the same; the conversion is cheaper from the narrow width
	} else if a.op == OZExt {
		a, signed = a.args[0], false
	}
	if a.IsConst() && a.sort.W <= 64 {
		if signed {
			return tt.FP(float64(signExt(a.cval, a.sort.W)))
		}
		return tt.FP(float64(a.cval))
	}
	if signed {
		return tt.mk(OFFromS, fpSort, 0, 0, "", a)
	}
	return tt.mk(OFFromU, fpSort, 0, 0, "", a)
}
func (tt *TermTable) FToInt(a *Term, w int, signed bool) *Term {
	if a.IsConst() {
		x := a.Float()
		if !math.IsNaN(x) && !math.IsInf(x, 0) && math.Abs(x) < 9e18 {
			if signed {
				return tt.BV(w, uint64(int64(x)))
			}
			if x >= 0 {
				return tt.BV(w, uint64(x))
			}
		}
	}
	if signed {
		return tt.mk(OFToS, bv(w), w, 0, "", a)
	}
	return tt.mk(OFToU, bv(w), w, 0, "", a)
}
func (tt *TermTable) FFromBits(a *Term) *Term {
	if a.IsConst() {
		return &Term{op: OConst, sort: fpSort, cval: a.cval}
	}
	return tt.mk(OFFromBV, fpSort, 0, 0, "", a)
}

// ---- printing ----

func constStr(t *Term) string {
	switch t.sort.K {
	case SBool:
		if t.cval == 1 {
			return "true"
		}
		return "false"
	case SBV:
		if t.wide != nil {
			return "#x" + fmt.Sprintf("%x", t.wide)
		}
		if t.sort.W%4 == 0 {
			return fmt.Sprintf("#x%0*x", t.sort.W/4, t.cval)
		}
		return fmt.Sprintf("#b%0*b", t.sort.W, t.cval)
	case SFP:
		b := t.cval
		return fmt.Sprintf("(fp #b%b #b%011b #x%013x)", b>>63, (b>>52)&0x7ff, b&((1<<52)-1))
	}
	return "?"
}

func (t *Term) ref() string {
	switch t.op {
	case OConst:
		return constStr(t)
	case OVar:
		return t.name
	}
	return "t" + strconv.Itoa(t.id)
}

func (t *Term) body() string {
	var sb strings.Builder
	switch t.op {
	case OExtract:
		fmt.Fprintf(&sb, "((_ extract %d %d) %s)", t.p1, t.p2, t.args[0].ref())
	case OZExt:
		fmt.Fprintf(&sb, "((_ zero_extend %d) %s)", t.p1, t.args[0].ref())
	case OSExt:
		fmt.Fprintf(&sb, "((_ sign_extend %d) %s)", t.p1, t.args[0].ref())
	case OUF:
		if len(t.args) == 0 {
			return "uf_" + t.name
		}
		sb.WriteString("(uf_" + t.name)
		for _, a := range t.args {
			sb.WriteByte(' ')
			sb.WriteString(a.ref())
		}
		sb.WriteByte(')')
	case OFFromS:
		fmt.Fprintf(&sb, "((_ to_fp 11 53) RNE %s)", t.args[0].ref())
	case OFFromU:
		fmt.Fprintf(&sb, "((_ to_fp_unsigned 11 53) RNE %s)", t.args[0].ref())
	case OFToS:
		fmt.Fprintf(&sb, "((_ fp.to_sbv %d) RTZ %s)", t.p1, t.args[0].ref())
	case OFToU:
		fmt.Fprintf(&sb, "((_ fp.to_ubv %d) RTZ %s)", t.p1, t.args[0].ref())
	case OFFromBV:
		fmt.Fprintf(&sb, "((_ to_fp 11 53) %s)", t.args[0].ref())
	case OFRound:
		mode := []string{"RTP", "RTN", "RTZ"}[t.p1]
		fmt.Fprintf(&sb, "(fp.roundToIntegral %s %s)", mode, t.args[0].ref())
	default:
		name, ok := opNames[t.op]
		if !ok {
			panic(fmt.Sprintf("no SMT name for op %d", t.op))
		}
		sb.WriteString("(" + name)
		for _, a := range t.args {
			sb.WriteByte(' ')
			sb.WriteString(a.ref())
		}
		sb.WriteByte(')')
	}
	return sb.String()
}

// BytesToBV concatenates byte terms (big-endian: first byte most significant).
func (tt *TermTable) BytesToBV(bs []*Term) *Term {
	if len(bs) == 0 {
		panic("BytesToBV of empty")
	}
	// fold right-to-left in chunks so constants fold into <=64 bit pieces first
	acc := bs[0]
	for _, b := range bs[1:] {
		acc = tt.Concat(acc, b)
	}
	return acc
}

// evaluation of a term under a model (map var name -> value) is not needed:
// concrete values are obtained from the solver with get-value.

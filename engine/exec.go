package main

// Per-path execution state: decision prefix, path condition, solver interaction.

import (
	"fmt"
	"go/types"
	"os"
	"sort"
	"strings"
	"sync"

	"golang.org/x/tools/go/ssa"
)

var branchProf map[string]int
var branchProfMu sync.Mutex

type Draw struct {
	Kind  string   `json:"k"` // byte, u16, u32, u64, bool, bytes, len, choice
	N     int      `json:"n,omitempty"`
	terms []*Term  // for symbolic draws
	Val   []uint64 `json:"v"` // concrete values (filled from prefix or model)
}

type Violation struct {
	Kind    string // "assert" | "panic"
	Label   string
	Detail  string
	Tape    []Draw
	Prefix  []int64
	Harness string
}

type Exec struct {
	eng *Engine
	h   *HarnessSpec
	sol *Solver
	tt  *TermTable

	prefix    []int64
	pos       int
	decisions []int64

	pc    []*Term
	pcSet map[*Term]bool
	sent  int // number of pc literals already asserted in the solver

	draws   []Draw
	nSym    int
	globals map[*ssa.Global]*Value
	pkgInit map[*ssa.Package]bool
	lazyIn  map[*ssa.Global]bool

	steps     int
	depth     int
	loopVisit map[*ssa.BasicBlock]int

	// results
	out *PathResult

	// stub state
	metrics        []metricEvent
	randCalls      int
	clock          *Term
	retryBound     int
	nHash          int
	funcsSeen      map[*ssa.Function]bool
	observed       []string
	reached        map[string]bool
	assertsSeen    map[string]int
	params         map[string]int
	nCtx           int
	fp             *footprint
	where          string
	lastConflict   string
	udp            *udpState
	blockedForever bool
	watchdogLabel  string
	curFrame       *frame // the frame of the call being dispatched (for stubs that call back into the program)
	hmacApps       map[string][]*Term
	curPos         string
	randLog        [][]*Term
	retryAttempts  int
	pcSetNames     map[string]bool
	pkgInitStarted map[*ssa.Package]bool
	curDeferFrame  []*frame
	writeLog       map[*Value]bool
	inHarness      bool
}

type metricEvent struct {
	name   string
	labels []Value
	delta  int
	kind   string // inc, dec, add, observe
}

type PathResult struct {
	newPrefixes [][]int64
	violations  []Violation
	status      string // done, assume, infeasible, unsupported, unwind, budget, panic
	detail      string
	nBranchQ    int
	nEdges      int
	nAssertQ    int
	nAssertOK   int
	nAssertTriv int
	nUnknown    int
	steps       int
	funcs       map[*ssa.Function]bool
	reached     map[string]bool
	asserts     map[string]int
	witness     []Draw // a model of the final PC (reachability witness) when requested
	observed    []string
}

func (ex *Exec) unsupported(msg string) {
	panic(&pathEnd{reason: "unsupported", detail: msg})
}

// ---- solver plumbing ----

func (ex *Exec) emit(t *Term) {
	if t.emitted || t.op == OConst {
		return
	}
	// iterative post-order to avoid deep recursion on long chains
	type fr struct {
		t *Term
		i int
	}
	stack := []fr{{t, 0}}
	for len(stack) > 0 {
		top := &stack[len(stack)-1]
		if top.t.emitted || top.t.op == OConst {
			stack = stack[:len(stack)-1]
			continue
		}
		if top.i < len(top.t.args) {
			a := top.t.args[top.i]
			top.i++
			if !a.emitted && a.op != OConst {
				stack = append(stack, fr{a, 0})
			}
			continue
		}
		tt := top.t
		switch tt.op {
		case OVar:
			ex.sol.send(fmt.Sprintf("(declare-const %s %s)", tt.name, tt.sort))
		case OUF:
			ex.declUF(tt)
			ex.sol.send(fmt.Sprintf("(define-fun %s () %s %s)", tt.ref(), tt.sort, tt.body()))
		default:
			ex.sol.send(fmt.Sprintf("(define-fun %s () %s %s)", tt.ref(), tt.sort, tt.body()))
		}
		tt.emitted = true
		stack = stack[:len(stack)-1]
	}
}

func (ex *Exec) declUF(t *Term) {
	key := "decl:" + t.name
	if ex.pcSetNames == nil {
		ex.pcSetNames = map[string]bool{}
	}
	if ex.pcSetNames[key] {
		return
	}
	ex.pcSetNames[key] = true
	var as []string
	for _, a := range t.args {
		as = append(as, a.sort.String())
	}
	ex.sol.send(fmt.Sprintf("(declare-fun uf_%s (%s) %s)", t.name, strings.Join(as, " "), t.sort))
}

// flush sends pending path-condition literals and axioms.
func (ex *Exec) flush() {
	for ex.sent < len(ex.pc) {
		l := ex.pc[ex.sent]
		ex.emit(l)
		ex.sol.send("(assert " + l.ref() + ")")
		ex.sent++
	}
	for ex.tt.axSent < len(ex.tt.axioms) {
		a := ex.tt.axioms[ex.tt.axSent]
		ex.emit(a)
		ex.sol.send("(assert " + a.ref() + ")")
		ex.tt.axSent++
	}
}

// check asks whether PC ∧ extra is satisfiable.
func (ex *Exec) check(extra *Term) string {
	ex.flush()
	if extra == nil {
		return ex.sol.CheckSat()
	}
	ex.emit(extra)
	ex.flush() // axioms created by emit
	ex.sol.send("(push 1)")
	ex.sol.send("(assert " + extra.ref() + ")")
	r := ex.sol.CheckSat()
	ex.sol.send("(pop 1)")
	return r
}

func (ex *Exec) addPC(l *Term) {
	if l.IsConst() {
		return
	}
	if ex.pcSet[l] {
		return
	}
	ex.pc = append(ex.pc, l)
	ex.pcSet[l] = true
}

// pin records t == v (already in the path condition) so that terms built later use
// the constant. Only geometry values (lengths, offsets, counts) are pinned: pinning the
// bytes compared by ordinary branches would make terms built after the branch differ
// syntactically from those built before it, and push equalities that are otherwise
// closed by hash-consing onto the solver.
func (ex *Exec) pin(t *Term, v uint64) {
	if t.sort.K == SBV && t.sort.W <= 64 {
		ex.tt.Pin(t, ex.tt.BV(t.sort.W, v))
	}
}

func (ex *Exec) replaying() bool { return ex.pos < len(ex.prefix) }

func (ex *Exec) nextDecision() int64 {
	d := ex.prefix[ex.pos]
	ex.pos++
	ex.decisions = append(ex.decisions, d)
	return d
}

func (ex *Exec) fork(alt int64) {
	p := make([]int64, len(ex.decisions)+1)
	copy(p, ex.decisions)
	p[len(ex.decisions)] = alt
	ex.out.newPrefixes = append(ex.out.newPrefixes, p)
}

// branch decides a boolean condition, forking when both sides are feasible.
func (ex *Exec) branch(c *Term) bool {
	if c.sort.K != SBool {
		panic("branch on non-bool")
	}
	c = ex.tt.rep(c)
	if c.IsConst() {
		return c.cval == 1
	}
	if ex.pcSet[c] {
		return true
	}
	nc := ex.tt.BNot(c)
	if ex.pcSet[nc] {
		return false
	}
	if ex.replaying() {
		d := ex.nextDecision()
		if d == 1 {
			ex.addPC(c)
			return true
		}
		ex.addPC(nc)
		return false
	}
	ex.out.nBranchQ++
	if branchProf != nil {
		branchProfMu.Lock()
		branchProf[ex.curPos]++
		branchProfMu.Unlock()
	}
	rt := ex.check(c)
	var rf string
	if rt == "unsat" {
		rf = "sat" // PC is satisfiable by construction, so the other side must be
	} else {
		rf = ex.check(nc)
	}
	if rt == "unknown" || rf == "unknown" {
		ex.out.nUnknown++
		if os.Getenv("SYMGO_DEBUG_UNKNOWN") != "" {
			fmt.Fprintf(os.Stderr, "UNKNOWN branch at %s: %s\n", ex.curPos, c.body())
		}
	}
	tOK := rt != "unsat"
	fOK := rf != "unsat"
	switch {
	case tOK && fOK:
		ex.fork(0)
		ex.decisions = append(ex.decisions, 1)
		ex.addPC(c)
		return true
	case tOK:
		ex.decisions = append(ex.decisions, 1)
		ex.addPC(c)
		return true
	case fOK:
		ex.decisions = append(ex.decisions, 0)
		ex.addPC(nc)
		return false
	}
	panic(&pathEnd{reason: "infeasible", detail: "both sides of a branch unsatisfiable"})
}

// assume adds c to the path condition and ends the path if that makes it infeasible.
func (ex *Exec) assume(c *Term) {
	if c.IsConst() {
		if c.cval == 0 {
			panic(&pathEnd{reason: "assume"})
		}
		return
	}
	if ex.pcSet[c] {
		return
	}
	if ex.pcSet[ex.tt.BNot(c)] {
		panic(&pathEnd{reason: "assume"})
	}
	ex.addPC(c)
	if ex.replaying() {
		return
	}
	r := ex.check(nil)
	if r == "unsat" {
		panic(&pathEnd{reason: "assume"})
	}
	if r == "unknown" {
		ex.out.nUnknown++
	}
}

// choice performs an n-way concrete case split.
func (ex *Exec) choice(n int) int {
	if n <= 0 {
		panic(&pathEnd{reason: "assume"})
	}
	if n == 1 {
		return 0
	}
	if ex.replaying() {
		return int(ex.nextDecision())
	}
	for i := n - 1; i >= 1; i-- {
		ex.fork(int64(i))
	}
	ex.decisions = append(ex.decisions, 0)
	return 0
}

// concretize returns a concrete value for t (case split over all feasible values).
func (ex *Exec) concretize(t *Term, what string) uint64 {
	t = ex.tt.rep(t)
	if t.IsConst() {
		return t.cval
	}
	if t.sort.K == SBool {
		if ex.branch(t) {
			return 1
		}
		return 0
	}
	if ex.replaying() {
		v := uint64(ex.nextDecision())
		ex.addPC(ex.tt.Eq(t, ex.tt.BV(t.sort.W, v)))
		ex.pin(t, v)
		return v
	}
	cap := ex.eng.concCap
	ex.flush()
	ex.emit(t)
	ex.sol.send("(push 1)")
	var vals []uint64
	for {
		r := ex.sol.CheckSat()
		ex.out.nBranchQ++
		if r == "unsat" {
			break
		}
		if r == "unknown" {
			ex.sol.send("(pop 1)")
			ex.out.nUnknown++
			panic(&pathEnd{reason: "unsupported", detail: "solver unknown while concretising " + what})
		}
		vs, err := ex.sol.GetValues([]string{t.ref()})
		if err != nil {
			ex.sol.send("(pop 1)")
			panic(&pathEnd{reason: "unsupported", detail: "get-value failed while concretising " + what + ": " + err.Error()})
		}
		vals = append(vals, vs[0])
		if len(vals) > cap {
			ex.sol.send("(pop 1)")
			panic(&pathEnd{reason: "unsupported", detail: fmt.Sprintf("more than %d feasible values while concretising %s", cap, what)})
		}
		ex.sol.send(fmt.Sprintf("(assert (not (= %s %s)))", t.ref(), constStr(ex.tt.BV(t.sort.W, vs[0]))))
	}
	ex.sol.send("(pop 1)")
	if len(vals) == 0 {
		panic(&pathEnd{reason: "infeasible", detail: "no feasible value for " + what})
	}
	sort.Slice(vals, func(i, j int) bool { return vals[i] < vals[j] })
	for i := len(vals) - 1; i >= 1; i-- {
		ex.fork(int64(vals[i]))
	}
	ex.decisions = append(ex.decisions, int64(vals[0]))
	ex.addPC(ex.tt.Eq(t, ex.tt.BV(t.sort.W, vals[0])))
	ex.pin(t, vals[0])
	return vals[0]
}

// model extracts concrete values for all draws under PC ∧ extra.
func (ex *Exec) model(extra *Term) ([]Draw, bool) {
	ex.flush()
	var refs []string
	for i := range ex.draws {
		for _, t := range ex.draws[i].terms {
			ex.emit(t)
			refs = append(refs, t.ref())
		}
	}
	if extra != nil {
		ex.emit(extra)
	}
	ex.flush()
	ex.sol.send("(push 1)")
	defer ex.sol.send("(pop 1)")
	if extra != nil {
		ex.sol.send("(assert " + extra.ref() + ")")
	}
	if r := ex.sol.CheckSat(); r != "sat" {
		return nil, false
	}
	var vals []uint64
	if len(refs) > 0 {
		var err error
		vals, err = ex.sol.GetValues(refs)
		if err != nil {
			return nil, false
		}
	}
	out := make([]Draw, len(ex.draws))
	k := 0
	for i, d := range ex.draws {
		nd := Draw{Kind: d.Kind, N: d.N}
		if len(d.terms) == 0 {
			nd.Val = append([]uint64{}, d.Val...)
		} else {
			for range d.terms {
				nd.Val = append(nd.Val, vals[k])
				k++
			}
		}
		out[i] = nd
	}
	return out, true
}

// ---- assertions, reporting ----

func (ex *Exec) assertProp(c *Term, label string) {
	ex.assertsSeen[label]++
	if c.IsConst() {
		if c.cval == 1 {
			ex.out.nAssertTriv++
			ex.out.nAssertOK++
			return
		}
		tape, ok := ex.model(nil)
		if ok {
			ex.violation("assert", label, "assertion is constant false on a feasible path", tape)
		} else {
			ex.out.nUnknown++
			ex.out.detail = "assertion " + label + " is constant false on a path whose condition the solver could not satisfy in time"
		}
		panic(&pathEnd{reason: "done", detail: "assertion failed"})
	}
	if ex.pcSet[c] {
		ex.out.nAssertOK++
		ex.out.nAssertTriv++
		return
	}
	nc := ex.tt.BNot(c)
	ex.out.nAssertQ++
	r := ex.check(nc)
	switch r {
	case "unsat":
		ex.out.nAssertOK++
		ex.addPC(c)
	case "sat":
		tape, ok := ex.model(nc)
		if ok {
			ex.violation("assert", label, "", tape)
		} else {
			ex.out.nUnknown++
		}
		// continue under the assumption that it held, if that is feasible
		ex.assume(c)
	default:
		ex.out.nUnknown++
		ex.out.detail = "solver unknown at assertion " + label
		ex.assume(c)
	}
}

func (ex *Exec) violation(kind, label, detail string, tape []Draw) {
	ex.out.violations = append(ex.out.violations, Violation{
		Kind: kind, Label: label, Detail: detail, Tape: tape,
		Prefix: append([]int64{}, ex.decisions...), Harness: ex.h.Name,
	})
}

// ---- symbolic inputs ----

func (ex *Exec) freshBV(w int, kind string) *Term {
	ex.nSym++
	return ex.tt.Var(fmt.Sprintf("%s_%d", kind, ex.nSym), bv(w))
}

func (ex *Exec) drawScalar(kind string, w int) *Term {
	t := ex.freshBV(w, kind)
	ex.draws = append(ex.draws, Draw{Kind: kind, terms: []*Term{t}})
	return t
}

func (ex *Exec) drawBytes(n int) []*Term {
	ts := make([]*Term, n)
	for i := range ts {
		ts[i] = ex.freshBV(8, "b")
	}
	ex.draws = append(ex.draws, Draw{Kind: "bytes", N: n, terms: ts})
	return ts
}

func (ex *Exec) drawConcrete(kind string, v int) {
	ex.draws = append(ex.draws, Draw{Kind: kind, Val: []uint64{uint64(v)}})
}

// typeString is a short description used in messages.
func typeString(t types.Type) string {
	if t == nil {
		return "<nil>"
	}
	return types.TypeString(t, nil)
}

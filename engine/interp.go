package main

// Symbolic interpreter over go/ssa (structure follows x/tools/go/ssa/interp).

import (
	"fmt"
	"go/constant"
	"go/token"
	"go/types"
	"strings"

	"golang.org/x/tools/go/ssa"
)

type deferred struct {
	fn   Value
	args []Value
	call *ssa.CallCommon
}

type frame struct {
	ex        *Exec
	fn        *ssa.Function
	block     *ssa.BasicBlock
	prev      *ssa.BasicBlock
	env       map[ssa.Value]Value
	locals    []Value
	defers    []*deferred
	result    Value
	panicking bool
	panicVal  interface{}
	caller    *frame
	loops     map[*ssa.BasicBlock]int
}

func (ex *Exec) posOf(p token.Pos) string {
	if !p.IsValid() {
		return "-"
	}
	pp := ex.eng.prog.Fset.Position(p)
	f := pp.Filename
	if i := strings.Index(f, "/repo/"); i >= 0 {
		f = f[i+6:]
	} else if i := strings.LastIndex(f, "/pkg/mod/"); i >= 0 {
		f = f[i+9:]
	}
	return fmt.Sprintf("%s:%d", f, pp.Line)
}

func (ex *Exec) rtPanic(fr *frame, kind, msg string, pos token.Pos) {
	fn := "?"
	if fr != nil {
		fn = fr.fn.String()
	}
	panic(&progPanic{kind: kind, msg: msg, pos: ex.posOf(pos), fn: fn,
		val: Iface{t: types.Typ[types.String], v: "runtime error: " + msg}})
}

func (fr *frame) get(v ssa.Value) Value {
	switch v := v.(type) {
	case *ssa.Const:
		return fr.ex.constVal(v)
	case *ssa.Global:
		return fr.ex.globalAddr(v)
	case *ssa.Function:
		return v
	case *ssa.Builtin:
		return v
	case nil:
		return nil
	}
	if r, ok := fr.env[v]; ok {
		return r
	}
	panic(fmt.Sprintf("get: no value for %T %v in %s", v, v.Name(), fr.fn))
}

func (ex *Exec) constVal(c *ssa.Const) Value {
	t := c.Type()
	if c.Value == nil {
		return ex.zero(t)
	}
	switch u := under(t).(type) {
	case *types.Basic:
		switch {
		case u.Info()&types.IsBoolean != 0:
			return ex.tt.Bool(constant.BoolVal(c.Value))
		case u.Info()&types.IsInteger != 0:
			w := intWidth(u)
			if u.Info()&types.IsUnsigned != 0 {
				return ex.tt.BV(w, c.Uint64())
			}
			return ex.tt.BV(w, uint64(c.Int64()))
		case u.Info()&types.IsFloat != 0:
			return ex.tt.FP(c.Float64())
		case u.Info()&types.IsString != 0:
			return constant.StringVal(c.Value)
		}
	case *types.Interface:
		// constant converted to interface cannot occur in SSA (MakeInterface is explicit)
	}
	ex.unsupported("constant of type " + t.String())
	return nil
}

// ---- calls ----

func (ex *Exec) callValue(caller *frame, fnv Value, args []Value, pos token.Pos) Value {
	switch f := fnv.(type) {
	case *ssa.Function:
		return ex.callFunction(caller, f, args, nil, pos)
	case *Closure:
		return ex.callFunction(caller, f.fn, args, f.env, pos)
	case *ssa.Builtin:
		return ex.callBuiltin(caller, f, args, pos)
	case *StubFunc:
		return f.call(ex, args)
	case nil:
		ex.rtPanic(caller, "nil", "invalid memory address or nil pointer dereference (call of nil func)", pos)
	}
	panic(fmt.Sprintf("callValue: %T", fnv))
}

func (ex *Exec) callFunction(caller *frame, fn *ssa.Function, args []Value, env []Value, pos token.Pos) Value {
	if ex.funcsSeen != nil && !ex.funcsSeen[fn] {
		ex.funcsSeen[fn] = true
	}
	if res, handled := ex.intrinsic(caller, fn, args); handled {
		return res
	}
	if fn.Blocks == nil {
		ex.unsupported("call of external function without body: " + fn.String())
	}
	ex.depth++
	if ex.depth > 400 {
		ex.unsupported("call depth exceeded in " + fn.String())
	}
	defer func() { ex.depth-- }()
	fr := &frame{ex: ex, fn: fn, env: make(map[ssa.Value]Value, 16), caller: caller}
	for i, p := range fn.Params {
		fr.env[p] = args[i]
	}
	for i, fv := range fn.FreeVars {
		fr.env[fv] = env[i]
	}
	fr.block = fn.Blocks[0]
	fr.locals = make([]Value, len(fn.Locals))
	for i, l := range fn.Locals {
		fr.locals[i] = ex.zero(deref(l.Type()))
		p := &fr.locals[i]
		fr.env[l] = p
	}
	for fr.block != nil {
		ex.runFrame(fr)
	}
	return fr.result
}

func deref(t types.Type) types.Type {
	if p, ok := under(t).(*types.Pointer); ok {
		return p.Elem()
	}
	return t
}

func (ex *Exec) runFrame(fr *frame) {
	defer func() {
		if fr.block == nil {
			return // normal return
		}
		r := recover()
		if _, isEnd := r.(*pathEnd); isEnd {
			panic(r)
		}
		if _, isProg := r.(*progPanic); !isProg {
			panic(r) // engine bug: propagate
		}
		fr.panicking = true
		fr.panicVal = r
		fr.runDefers()
		fr.block = fr.fn.Recover
	}()
	for {
		for _, instr := range fr.block.Instrs {
			ex.steps++
			if ex.steps > ex.eng.stepBudget {
				panic(&pathEnd{reason: "budget", detail: "step budget exceeded"})
			}
			switch ex.visitInstr(fr, instr) {
			case kReturn:
				return
			case kNext:
			case kJump:
				goto next
			}
		}
		panic("block without terminator")
	next:
	}
}

func (fr *frame) runDefers() {
	for i := len(fr.defers) - 1; i >= 0; i-- {
		d := fr.defers[i]
		fr.defers = fr.defers[:i]
		fr.runDefer(d)
	}
	fr.defers = nil
	if fr.panicking {
		panic(fr.panicVal) // new panic, or still panicking
	}
}

func (fr *frame) runDefer(d *deferred) {
	ok := false
	defer func() {
		if !ok {
			r := recover()
			if _, isEnd := r.(*pathEnd); isEnd {
				panic(r)
			}
			if _, isProg := r.(*progPanic); !isProg {
				panic(r)
			}
			// deferred call panicked: replaces the current panic
			fr.panicking = true
			fr.panicVal = r
		}
	}()
	fr.ex.curDeferFrame = append(fr.ex.curDeferFrame, fr)
	defer func() { fr.ex.curDeferFrame = fr.ex.curDeferFrame[:len(fr.ex.curDeferFrame)-1] }()
	if d.call != nil && d.call.IsInvoke() {
		fr.ex.invoke(fr, d.call, d.args, token.NoPos)
	} else {
		fr.ex.callValue(fr, d.fn, d.args, token.NoPos)
	}
	ok = true
}

type cont int

const (
	kNext cont = iota
	kReturn
	kJump
)

func (ex *Exec) prepareCall(fr *frame, call *ssa.CallCommon) (Value, []Value) {
	var args []Value
	var fn Value
	if call.IsInvoke() {
		recv := fr.get(call.Value)
		args = append(args, recv)
	} else {
		fn = fr.get(call.Value)
	}
	for _, a := range call.Args {
		args = append(args, fr.get(a))
	}
	return fn, args
}

// invoke performs a dynamic method call; args[0] is the interface value.
func (ex *Exec) invoke(fr *frame, call *ssa.CallCommon, args []Value, pos token.Pos) Value {
	recv, ok := args[0].(Iface)
	if !ok {
		panic(fmt.Sprintf("invoke on non-interface %T", args[0]))
	}
	if recv.t == nil {
		ex.rtPanic(fr, "nil", "invalid memory address or nil pointer dereference (method "+call.Method.Name()+" on nil interface)", pos)
	}
	if so, ok := recv.v.(StubObject); ok {
		return so.Invoke(ex, fr, call.Method.Name(), args[1:])
	}
	m := ex.eng.lookupMethod(recv.t, call.Method)
	if m == nil {
		ex.unsupported(fmt.Sprintf("method %s not found for dynamic type %s", call.Method.Name(), typeString(recv.t)))
	}
	nargs := append([]Value{recv.v}, args[1:]...)
	return ex.callFunction(fr, m, nargs, nil, pos)
}

func (ex *Exec) visitInstr(fr *frame, instr ssa.Instruction) cont {
	if ex.fp != nil {
		if p := instr.Pos(); p.IsValid() {
			ex.where = ex.posOf(p) + " (" + fr.fn.Name() + ")"
		}
	}
	switch instr := instr.(type) {
	case *ssa.DebugRef:
	case *ssa.UnOp:
		fr.env[instr] = ex.unop(fr, instr)
	case *ssa.BinOp:
		fr.env[instr] = ex.binop(fr, instr.Op, instr.X.Type(), fr.get(instr.X), fr.get(instr.Y), instr.Pos())
	case *ssa.Call:
		fn, args := ex.prepareCall(fr, &instr.Call)
		if instr.Call.IsInvoke() {
			fr.env[instr] = ex.invoke(fr, &instr.Call, args, instr.Pos())
		} else {
			fr.env[instr] = ex.callValue(fr, fn, args, instr.Pos())
		}
	case *ssa.ChangeInterface:
		fr.env[instr] = fr.get(instr.X)
	case *ssa.ChangeType:
		fr.env[instr] = fr.get(instr.X)
	case *ssa.Convert:
		fr.env[instr] = ex.conv(fr, instr.Type(), instr.X.Type(), fr.get(instr.X), instr.Pos())
	case *ssa.SliceToArrayPointer:
		s := fr.get(instr.X).(Slice)
		n := int(under(deref(instr.Type())).(*types.Array).Len())
		if len(s.data) < n {
			ex.rtPanic(fr, "slice", fmt.Sprintf("cannot convert slice with length %d to array or pointer to array with length %d", len(s.data), n), instr.Pos())
		}
		if s.data == nil && n == 0 {
			fr.env[instr] = (*Value)(nil)
		} else {
			p := new(Value)
			*p = Array(s.data[:n:n])
			fr.env[instr] = p
		}
	case *ssa.MakeInterface:
		fr.env[instr] = Iface{t: instr.X.Type(), v: fr.get(instr.X)}
	case *ssa.Extract:
		fr.env[instr] = fr.get(instr.Tuple).(Tuple)[instr.Index]
	case *ssa.Slice:
		fr.env[instr] = ex.sliceOp(fr, instr)
	case *ssa.Return:
		switch len(instr.Results) {
		case 0:
		case 1:
			fr.result = fr.get(instr.Results[0])
		default:
			res := make(Tuple, len(instr.Results))
			for i, r := range instr.Results {
				res[i] = fr.get(r)
			}
			fr.result = res
		}
		fr.block = nil
		return kReturn
	case *ssa.RunDefers:
		fr.runDefers()
	case *ssa.Panic:
		v := fr.get(instr.X)
		panic(&progPanic{kind: "explicit", msg: ex.describePanic(v), pos: ex.posOf(instr.Pos()), fn: fr.fn.String(), val: v})
	case *ssa.Send, *ssa.Go, *ssa.Select, *ssa.MakeChan:
		ex.unsupported(fmt.Sprintf("instruction %T in %s", instr, fr.fn))
	case *ssa.Store:
		if sp, ok := fr.get(instr.Addr).(*SymPtr); ok {
			ex.symStore(sp, fr.get(instr.Val))
			break
		}
		addr := fr.get(instr.Addr).(*Value)
		if addr == nil {
			ex.rtPanic(fr, "nil", "invalid memory address or nil pointer dereference (store)", instr.Pos())
		}
		ex.noteWrite(addr)
		store(addr, fr.get(instr.Val))
	case *ssa.If:
		c := fr.get(instr.Cond).(*Term)
		if branchProf != nil && !c.IsConst() {
			p := instr.Cond.Pos()
			if !p.IsValid() {
				p = instr.Pos()
			}
			ex.curPos = fr.fn.Name() + " " + ex.posOf(p)
		}
		succ := 1
		if ex.branch(c) {
			succ = 0
		}
		fr.prev, fr.block = fr.block, fr.block.Succs[succ]
		ex.loopCheck(fr)
		return kJump
	case *ssa.Jump:
		fr.prev, fr.block = fr.block, fr.block.Succs[0]
		ex.loopCheck(fr)
		return kJump
	case *ssa.Defer:
		fn, args := ex.prepareCall(fr, &instr.Call)
		fr.defers = append(fr.defers, &deferred{fn: fn, args: args, call: &instr.Call})
	case *ssa.MakeClosure:
		var bindings []Value
		for _, b := range instr.Bindings {
			bindings = append(bindings, fr.get(b))
		}
		fr.env[instr] = &Closure{fn: instr.Fn.(*ssa.Function), env: bindings}
	case *ssa.Phi:
		for i, pred := range instr.Block().Preds {
			if fr.prev == pred {
				fr.env[instr] = fr.get(instr.Edges[i])
				break
			}
		}
	case *ssa.Alloc:
		var addr *Value
		if instr.Heap {
			addr = new(Value)
			*addr = ex.zero(deref(instr.Type()))
			fr.env[instr] = addr
		} else {
			// local: slot preallocated; re-zero on each execution
			addr = fr.env[instr].(*Value)
			*addr = ex.zero(deref(instr.Type()))
		}
	case *ssa.MakeSlice:
		n := int(ex.concretize(fr.get(instr.Len).(*Term), "make([]T) length at "+ex.posOf(instr.Pos())))
		c := int(ex.concretize(fr.get(instr.Cap).(*Term), "make([]T) capacity"))
		n = int(int64(n))
		if n < 0 || c < n || c > 1<<24 {
			ex.rtPanic(fr, "slice", "makeslice: len out of range", instr.Pos())
		}
		et := under(instr.Type()).(*types.Slice).Elem()
		data := make([]Value, c)
		z := ex.zero(et)
		for i := range data {
			if i == 0 {
				data[i] = z
			} else {
				data[i] = copyVal(z)
			}
		}
		fr.env[instr] = Slice{data: data[:n]}
	case *ssa.MakeMap:
		mt := under(instr.Type()).(*types.Map)
		fr.env[instr] = &Map{keyT: mt.Key(), valT: mt.Elem()}
	case *ssa.Range:
		fr.env[instr] = ex.rangeIter(fr, fr.get(instr.X), instr)
	case *ssa.Next:
		ex.curFrame = fr
		fr.env[instr] = fr.get(instr.Iter).(*iter).next(ex)
	case *ssa.FieldAddr:
		p := fr.get(instr.X).(*Value)
		if p == nil {
			ex.rtPanic(fr, "nil", "invalid memory address or nil pointer dereference (field address)", instr.Pos())
		}
		fr.env[instr] = &(*p).(Struct)[instr.Field]
	case *ssa.Field:
		fr.env[instr] = copyVal(fr.get(instr.X).(Struct)[instr.Field])
	case *ssa.IndexAddr:
		fr.env[instr] = ex.indexAddr(fr, instr)
	case *ssa.Index:
		fr.env[instr] = ex.indexOp(fr, instr)
	case *ssa.Lookup:
		fr.env[instr] = ex.lookup(fr, instr)
	case *ssa.MapUpdate:
		m := fr.get(instr.Map).(*Map)
		if m == nil {
			ex.rtPanic(fr, "nilmap", "assignment to entry in nil map", instr.Pos())
		}
		ex.noteMap(m, true)
		ex.mapSet(m, fr.get(instr.Key), fr.get(instr.Value))
	case *ssa.TypeAssert:
		fr.env[instr] = ex.typeAssert(fr, instr)
	case *ssa.MultiConvert:
		ex.unsupported("MultiConvert")
	default:
		panic(fmt.Sprintf("unexpected instruction: %T", instr))
	}
	return kNext
}

func (ex *Exec) describePanic(v Value) string {
	if i, ok := v.(Iface); ok {
		switch x := i.v.(type) {
		case string:
			return x
		case *OpaqueStr:
			return "formatted: " + x.format
		}
		return "value of type " + typeString(i.t)
	}
	return fmt.Sprintf("%T", v)
}

// loopCheck enforces the per-path loop unwinding bound.
func (ex *Exec) loopCheck(fr *frame) {
	b := fr.block
	// a back edge: target index <= source index
	if fr.prev != nil && b.Index <= fr.prev.Index {
		// per activation of the function: a loop may run loopBound iterations each time it is entered
		if fr.loops == nil {
			fr.loops = map[*ssa.BasicBlock]int{}
		}
		fr.loops[b]++
		if fr.loops[b] > ex.eng.loopBound {
			panic(&pathEnd{reason: "unwind", detail: fmt.Sprintf("loop bound %d exceeded in %s (block %d)", ex.eng.loopBound, fr.fn, b.Index)})
		}
	}
}

// ---- memory ops ----

func (ex *Exec) unop(fr *frame, instr *ssa.UnOp) Value {
	x := fr.get(instr.X)
	switch instr.Op {
	case token.MUL: // load
		if sp, ok := x.(*SymPtr); ok {
			return ex.symLoad(sp)
		}
		p := x.(*Value)
		if p == nil {
			ex.rtPanic(fr, "nil", "invalid memory address or nil pointer dereference (load)", instr.Pos())
		}
		ex.noteRead(p)
		return load(p)
	case token.NOT:
		return ex.tt.BNot(x.(*Term))
	case token.SUB:
		t := x.(*Term)
		if t.sort.K == SFP {
			return ex.tt.FUn(OFNeg, t, 0)
		}
		return ex.tt.Neg(t)
	case token.XOR:
		return ex.tt.Not(x.(*Term))
	case token.ARROW:
		ex.unsupported("channel receive in " + fr.fn.String())
	}
	panic(fmt.Sprintf("unop %v", instr.Op))
}

func (ex *Exec) sliceOp(fr *frame, instr *ssa.Slice) Value {
	x := fr.get(instr.X)
	var lo, hi, max *Term
	if instr.Low != nil {
		lo = fr.get(instr.Low).(*Term)
	}
	if instr.High != nil {
		hi = fr.get(instr.High).(*Term)
	}
	if instr.Max != nil {
		max = fr.get(instr.Max).(*Term)
	}
	where := ex.posOf(instr.Pos())
	conc := func(t *Term, def int, v ssa.Value) int {
		if t == nil {
			return def
		}
		t = ex.tt.Resize(t, 64, isSigned(v.Type()))
		return int(int64(ex.concretize(t, "slice bound at "+where)))
	}
	var length, capacity int
	var data []Value
	isStr := false
	var sb []*Term
	switch v := x.(type) {
	case Slice:
		data = v.data
		length, capacity = len(v.data), cap(v.data)
	case *Value:
		if v == nil {
			ex.rtPanic(fr, "nil", "slice of nil array pointer", instr.Pos())
		}
		arr := (*v).(Array)
		data = []Value(arr)
		length, capacity = len(arr), len(arr)
	case string, SymStr:
		isStr = true
		sb = ex.strBytes(x)
		length, capacity = len(sb), len(sb)
	default:
		panic(fmt.Sprintf("slice of %T", x))
	}
	l := conc(lo, 0, instr.Low)
	h := conc(hi, length, instr.High)
	m := conc(max, capacity, instr.Max)
	if isStr {
		if l < 0 || h < l || h > length {
			ex.rtPanic(fr, "slice", fmt.Sprintf("slice bounds out of range [%d:%d] with length %d", l, h, length), instr.Pos())
		}
		return mkStr(sb[l:h])
	}
	if l < 0 || h < l || m < h || m > capacity {
		ex.rtPanic(fr, "slice", fmt.Sprintf("slice bounds out of range [%d:%d:%d] with capacity %d", l, h, m, capacity), instr.Pos())
	}
	if data == nil {
		return Slice{}
	}
	return Slice{data: data[l:h:m]}
}

func (ex *Exec) concIndex(fr *frame, idx *Term, n int, pos token.Pos, signed bool) int {
	idx = ex.tt.Resize(idx, 64, signed)
	if !idx.IsConst() {
		// first decide in-range vs out-of-range, then enumerate
		inr := ex.tt.Cmp(OUlt, idx, ex.tt.BV(64, uint64(n)))
		if !ex.branch(inr) {
			ex.rtPanic(fr, "index", fmt.Sprintf("index out of range [symbolic] with length %d", n), pos)
		}
	}
	i := int64(ex.concretize(idx, "index at "+ex.posOf(pos)))
	if i < 0 || i >= int64(n) {
		ex.rtPanic(fr, "index", fmt.Sprintf("index out of range [%d] with length %d", i, n), pos)
	}
	return int(i)
}

// SymPtr is the address of an element of a scalar array/slice at a symbolic index
// (already proved in range on this path).
type SymPtr struct {
	elems []Value
	idx   *Term // 64-bit
}

func (ex *Exec) symLoad(p *SymPtr) Value {
	tt := ex.tt
	acc := p.elems[len(p.elems)-1].(*Term)
	for i := len(p.elems) - 2; i >= 0; i-- {
		acc = tt.Ite(tt.Eq(p.idx, tt.BV(64, uint64(i))), p.elems[i].(*Term), acc)
	}
	return acc
}

func (ex *Exec) symStore(p *SymPtr, v Value) {
	tt := ex.tt
	for i := range p.elems {
		ex.noteWrite(&p.elems[i])
	}
	for i := range p.elems {
		p.elems[i] = tt.Ite(tt.Eq(p.idx, tt.BV(64, uint64(i))), v.(*Term), p.elems[i].(*Term))
	}
}

func scalarElems(vs []Value) bool {
	if len(vs) == 0 || len(vs) > 256 {
		return false
	}
	for _, v := range vs {
		if _, ok := v.(*Term); !ok {
			return false
		}
	}
	return true
}

// symIndex returns a SymPtr for a symbolic in-range index into scalar elements, or nil.
func (ex *Exec) symIndex(fr *frame, elems []Value, idx *Term, pos token.Pos, signed bool) *SymPtr {
	if idx.IsConst() || !scalarElems(elems) {
		return nil
	}
	idx = ex.tt.Resize(idx, 64, signed)
	if idx.IsConst() {
		return nil
	}
	inr := ex.tt.Cmp(OUlt, idx, ex.tt.BV(64, uint64(len(elems))))
	if !ex.branch(inr) {
		ex.rtPanic(fr, "index", fmt.Sprintf("index out of range [symbolic] with length %d", len(elems)), pos)
	}
	return &SymPtr{elems: elems, idx: idx}
}

func (ex *Exec) indexAddr(fr *frame, instr *ssa.IndexAddr) Value {
	x := fr.get(instr.X)
	idx := fr.get(instr.Index).(*Term)
	if !idx.IsConst() {
		switch v := x.(type) {
		case *Value:
			if v != nil {
				if sp := ex.symIndex(fr, []Value((*v).(Array)), idx, instr.Pos(), isSigned(instr.Index.Type())); sp != nil {
					return sp
				}
			}
		case Slice:
			if sp := ex.symIndex(fr, v.data, idx, instr.Pos(), isSigned(instr.Index.Type())); sp != nil {
				return sp
			}
		}
	}
	switch v := x.(type) {
	case *Value:
		if v == nil {
			ex.rtPanic(fr, "nil", "invalid memory address or nil pointer dereference (index of nil array pointer)", instr.Pos())
		}
		arr := (*v).(Array)
		i := ex.concIndex(fr, idx, len(arr), instr.Pos(), isSigned(instr.Index.Type()))
		return &arr[i]
	case Slice:
		i := ex.concIndex(fr, idx, len(v.data), instr.Pos(), isSigned(instr.Index.Type()))
		return &v.data[i]
	}
	panic(fmt.Sprintf("indexAddr of %T", x))
}

func (ex *Exec) indexOp(fr *frame, instr *ssa.Index) Value {
	x := fr.get(instr.X)
	idx := fr.get(instr.Index).(*Term)
	switch v := x.(type) {
	case Array:
		if sp := ex.symIndex(fr, []Value(v), idx, instr.Pos(), isSigned(instr.Index.Type())); sp != nil {
			return ex.symLoad(sp)
		}
		i := ex.concIndex(fr, idx, len(v), instr.Pos(), isSigned(instr.Index.Type()))
		return copyVal(v[i])
	case string, SymStr:
		bs := ex.strBytes(x)
		if !idx.IsConst() && len(bs) > 0 && len(bs) <= 256 {
			vs := make([]Value, len(bs))
			for i, b := range bs {
				vs[i] = b
			}
			if sp := ex.symIndex(fr, vs, idx, instr.Pos(), isSigned(instr.Index.Type())); sp != nil {
				return ex.symLoad(sp)
			}
		}
		i := ex.concIndex(fr, idx, len(bs), instr.Pos(), isSigned(instr.Index.Type()))
		return bs[i]
	}
	panic(fmt.Sprintf("index of %T", x))
}

// ---- maps ----

func (ex *Exec) mapFind(m *Map, key Value) *mapEntry {
	if m == nil {
		return nil
	}
	for i := len(m.entries) - 1; i >= 0; i-- {
		e := m.entries[i]
		if e.deleted {
			continue
		}
		eq := ex.equal(e.key, key)
		if ex.branch(eq) {
			return e
		}
	}
	return nil
}

func (ex *Exec) mapSet(m *Map, key, val Value) {
	if e := ex.mapFind(m, key); e != nil {
		store(e.val, val)
		return
	}
	slot := new(Value)
	*slot = copyVal(val)
	m.entries = append(m.entries, &mapEntry{key: copyVal(key), val: slot})
}

func (ex *Exec) mapLen(m *Map) int {
	if m == nil {
		return 0
	}
	n := 0
	for _, e := range m.entries {
		if !e.deleted {
			n++
		}
	}
	return n
}

func (ex *Exec) lookup(fr *frame, instr *ssa.Lookup) Value {
	x := fr.get(instr.X)
	switch v := x.(type) {
	case *Map:
		ex.noteMap(v, false)
		var valT types.Type
		if mt, ok := under(instr.X.Type()).(*types.Map); ok {
			valT = mt.Elem()
		}
		e := ex.mapFind(v, fr.get(instr.Index))
		var val Value
		if e != nil {
			val = load(e.val)
		} else {
			val = ex.zero(valT)
		}
		if instr.CommaOk {
			return Tuple{val, ex.tt.Bool(e != nil)}
		}
		return val
	case string, SymStr:
		bs := ex.strBytes(x)
		i := ex.concIndex(fr, fr.get(instr.Index).(*Term), len(bs), instr.Pos(), isSigned(instr.Index.Type()))
		return bs[i]
	}
	panic(fmt.Sprintf("lookup in %T", x))
}

// ---- iteration ----

type iter struct {
	kind       string
	m          *Map
	i          int
	s          string
	sym        SymStr
	keyT, valT types.Type
	snapshot   []*mapEntry
}

func (ex *Exec) rangeIter(fr *frame, x Value, instr *ssa.Range) Value {
	switch v := x.(type) {
	case *Map:
		it := &iter{kind: "map", m: v}
		if mt, ok := under(instr.X.Type()).(*types.Map); ok {
			it.keyT, it.valT = mt.Key(), mt.Elem()
		}
		if v != nil {
			it.snapshot = append(it.snapshot, v.entries...)
		}
		return it
	case string:
		return &iter{kind: "string", s: v}
	case SymStr:
		return &iter{kind: "symstr", sym: v}
	}
	panic(fmt.Sprintf("range over %T", x))
}

func (it *iter) next(ex *Exec) Value {
	switch it.kind {
	case "map":
		for it.i < len(it.snapshot) {
			e := it.snapshot[it.i]
			it.i++
			if e.deleted {
				continue
			}
			return Tuple{ex.tt.Bool(true), copyVal(e.key), load(e.val)}
		}
		return Tuple{ex.tt.Bool(false), ex.zero(it.keyT), ex.zero(it.valT)}
	case "symstr":
		// a string with symbolic bytes: each step decodes one rune with the real
		// unicode/utf8.DecodeRuneInString (forking on the byte classes)
		if it.i >= len(it.sym) {
			return Tuple{ex.tt.Bool(false), ex.tt.BV(64, 0), ex.tt.BV(32, 0)}
		}
		pkg := ex.eng.prog.ImportedPackage("unicode/utf8")
		if pkg == nil || pkg.Func("DecodeRuneInString") == nil || ex.curFrame == nil {
			ex.unsupported("range over symbolic string (unicode/utf8 not loaded)")
		}
		rest := append(SymStr{}, it.sym[it.i:]...)
		r := ex.callFunction(ex.curFrame, pkg.Func("DecodeRuneInString"), []Value{rest}, nil, 0).(Tuple)
		size := ex.concInt(r[1], "rune size")
		idx := it.i
		it.i += size
		return Tuple{ex.tt.Bool(true), ex.tt.BV(64, uint64(idx)), r[0]}
	case "string":
		if it.i >= len(it.s) {
			return Tuple{ex.tt.Bool(false), ex.tt.BV(64, 0), ex.tt.BV(32, 0)}
		}
		for j, r := range it.s[it.i:] {
			_ = j
			idx := it.i
			it.i += len(string(r))
			if r == 0xFFFD {
				it.i = idx + 1
			}
			return Tuple{ex.tt.Bool(true), ex.tt.BV(64, uint64(idx)), ex.tt.BV(32, uint64(r))}
		}
	}
	panic("iter.next")
}

// ---- type assertions ----

func (ex *Exec) typeAssert(fr *frame, instr *ssa.TypeAssert) Value {
	x := fr.get(instr.X).(Iface)
	ok := false
	var res Value
	if it, isIface := under(instr.AssertedType).(*types.Interface); isIface {
		if x.t != nil {
			if _, stub := x.v.(StubObject); stub {
				ok = ex.stubImplements(x, it)
			} else {
				ok = types.Implements(x.t, it)
			}
		}
		if ok {
			res = x
		} else {
			res = Iface{}
		}
	} else {
		if x.t != nil && types.Identical(x.t, instr.AssertedType) {
			ok = true
			res = x.v
		} else {
			res = ex.zero(instr.AssertedType)
		}
	}
	if instr.CommaOk {
		return Tuple{res, ex.tt.Bool(ok)}
	}
	if !ok {
		msg := fmt.Sprintf("interface conversion: interface is %s, not %s", typeString(x.t), typeString(instr.AssertedType))
		panic(&progPanic{kind: "typeassert", msg: msg, pos: ex.posOf(instr.Pos()), fn: fr.fn.String(),
			val: Iface{t: types.Typ[types.String], v: msg}})
	}
	return res
}

func (ex *Exec) stubImplements(x Iface, it *types.Interface) bool {
	so := x.v.(StubObject)
	for i := 0; i < it.NumMethods(); i++ {
		if !so.HasMethod(it.Method(i).Name()) {
			return false
		}
	}
	return true
}

// ---- builtins ----

func (ex *Exec) callBuiltin(fr *frame, b *ssa.Builtin, args []Value, pos token.Pos) Value {
	switch b.Name() {
	case "len":
		switch v := args[0].(type) {
		case Slice:
			return ex.tt.BV(64, uint64(len(v.data)))
		case string, SymStr:
			return ex.tt.BV(64, uint64(strLen(v)))
		case Array:
			return ex.tt.BV(64, uint64(len(v)))
		case *Map:
			return ex.tt.BV(64, uint64(ex.mapLen(v)))
		case *Value:
			return ex.tt.BV(64, uint64(len((*v).(Array))))
		}
	case "cap":
		switch v := args[0].(type) {
		case Slice:
			return ex.tt.BV(64, uint64(cap(v.data)))
		case Array:
			return ex.tt.BV(64, uint64(len(v)))
		case *Value:
			return ex.tt.BV(64, uint64(len((*v).(Array))))
		}
	case "append":
		s := args[0].(Slice)
		var add []Value
		switch t := args[1].(type) {
		case Slice:
			add = t.data
		case string, SymStr:
			for _, bt := range ex.strBytes(t) {
				add = append(add, bt)
			}
		default:
			panic(fmt.Sprintf("append of %T", args[1]))
		}
		if len(add) == 0 {
			return s
		}
		need := len(s.data) + len(add)
		var nd []Value
		if need <= cap(s.data) {
			nd = s.data[:need]
		} else {
			nc := 2 * cap(s.data)
			if nc < need {
				nc = need
			}
			nd = make([]Value, need, nc)
			copy(nd, s.data)
		}
		for i, a := range add {
			if need <= cap(s.data) {
				ex.noteWrite(&nd[len(s.data)+i]) // written into the shared backing array
			}
			nd[len(s.data)+i] = copyVal(a)
		}
		if t, ok := args[1].(Slice); ok {
			ex.noteSlice(t, false)
		}
		return Slice{data: nd}
	case "copy":
		dst := args[0].(Slice)
		var src []Value
		switch t := args[1].(type) {
		case Slice:
			src = t.data
		case string, SymStr:
			for _, bt := range ex.strBytes(t) {
				src = append(src, bt)
			}
		}
		n := len(dst.data)
		if len(src) < n {
			n = len(src)
		}
		// handle overlap like memmove
		tmp := make([]Value, n)
		for i := 0; i < n; i++ {
			tmp[i] = copyVal(src[i])
		}
		for i := 0; i < n; i++ {
			ex.noteWrite(&dst.data[i])
			dst.data[i] = tmp[i]
		}
		if t, ok := args[1].(Slice); ok && n > 0 {
			ex.noteSlice(Slice{data: t.data[:n]}, false)
		}
		return ex.tt.BV(64, uint64(n))
	case "delete":
		m := args[0].(*Map)
		if e := ex.mapFind(m, args[1]); e != nil {
			e.deleted = true
		}
		return nil
	case "recover":
		return ex.doRecover(fr)
	case "print", "println":
		return nil
	case "ssa:wrapnilchk":
		if p, ok := args[0].(*Value); ok && p == nil {
			ex.rtPanic(fr, "nil", "value method called using nil pointer", pos)
		}
		return args[0]
	case "min", "max":
		acc := args[0].(*Term)
		signed := true
		if sig, ok := b.Type().(*types.Signature); ok && sig.Params().Len() > 0 {
			signed = isSigned(sig.Params().At(0).Type())
		}
		for _, a := range args[1:] {
			t := a.(*Term)
			op := OUlt
			if signed {
				op = OSlt
			}
			var c *Term
			if b.Name() == "min" {
				c = ex.tt.Cmp(op, t, acc)
			} else {
				c = ex.tt.Cmp(op, acc, t)
			}
			acc = ex.tt.Ite(c, t, acc)
		}
		return acc
	case "clear":
		switch v := args[0].(type) {
		case *Map:
			if v != nil {
				v.entries = nil
			}
		case Slice:
			ex.unsupported("clear of slice")
		}
		return nil
	}
	ex.unsupported("builtin " + b.Name() + fmt.Sprintf(" on %T", args[0]))
	return nil
}

func (ex *Exec) doRecover(fr *frame) Value {
	// recover() is called from a deferred function; the panicking frame is the one
	// currently running its defers.
	if len(ex.curDeferFrame) == 0 {
		return Iface{}
	}
	pf := ex.curDeferFrame[len(ex.curDeferFrame)-1]
	// only effective when called directly by the deferred function
	if fr.caller != pf {
		return Iface{}
	}
	if !pf.panicking {
		return Iface{}
	}
	pf.panicking = false
	pp, _ := pf.panicVal.(*progPanic)
	pf.panicVal = nil
	if pp == nil {
		return Iface{}
	}
	if iv, ok := pp.val.(Iface); ok {
		return iv
	}
	return Iface{t: types.Typ[types.String], v: pp.msg}
}

package main

// Engine: program loading (from the current working tree, with harness overlays),
// package initialisation policy, method lookup.

import (
	"fmt"
	"go/types"
	"os"
	"path/filepath"
	"strings"
	"sync"

	"golang.org/x/tools/go/packages"
	"golang.org/x/tools/go/ssa"
	"golang.org/x/tools/go/ssa/ssautil"
)

const modPath = "github.com/gebn/bmc"

type HarnessSpec struct {
	Name string // e.g. "ipmi.VerifC20_BCD"
	Pkg  string // import path
	Func string
	fn   *ssa.Function
}

type Engine struct {
	repo      string
	verifDir  string
	prog      *ssa.Program
	pkgs      map[string]*ssa.Package // by import path
	eager     map[*ssa.Package]bool
	initOrder []*ssa.Package

	loopBound  int
	stepBudget int
	concCap    int
	tier       int
	solverKind string
	timeoutMs  int
	params     map[string]int

	mu           sync.Mutex
	methCache    map[string]*ssa.Function
	errString    types.Type
	overlay      map[string][]byte
	overlayFiles map[string]string // virtual path -> real path (for replay)
	wantWitness  bool
	lazyCache    map[*ssa.Global][]ssa.Instruction
}

// harness packages: directory under /verif/harness -> import path in the repo
var harnessPkgs = map[string]string{
	"bmc":        modPath,
	"ipmi":       modPath + "/pkg/ipmi",
	"dcmi":       modPath + "/pkg/dcmi",
	"bcd":        modPath + "/internal/pkg/bcd",
	"complement": modPath + "/internal/pkg/complement",
	"transport":  modPath + "/internal/pkg/transport",
}

func pkgDirOf(repo, importPath string) string {
	rel := strings.TrimPrefix(importPath, modPath)
	return filepath.Join(repo, rel)
}

// buildOverlay maps harness sources into the repo's package directories.
func (e *Engine) buildOverlay() error {
	e.overlay = map[string][]byte{}
	e.overlayFiles = map[string]string{}
	rt, err := os.ReadFile(filepath.Join(e.verifDir, "harness", "rt", "rt.go.tmpl"))
	if err != nil {
		return err
	}
	for dir, ip := range harnessPkgs {
		hdir := filepath.Join(e.verifDir, "harness", dir)
		ents, err := os.ReadDir(hdir)
		if err != nil {
			continue
		}
		pkgName := dir
		n := 0
		for _, ent := range ents {
			if !strings.HasSuffix(ent.Name(), ".go") || strings.HasSuffix(ent.Name(), "_test.go") {
				continue
			}
			src, err := os.ReadFile(filepath.Join(hdir, ent.Name()))
			if err != nil {
				return err
			}
			v := filepath.Join(pkgDirOf(e.repo, ip), "zz_verif_"+ent.Name())
			e.overlay[v] = src
			e.overlayFiles[v] = filepath.Join(hdir, ent.Name())
			n++
		}
		if n == 0 {
			continue
		}
		v := filepath.Join(pkgDirOf(e.repo, ip), "zz_verif_rt.go")
		e.overlay[v] = []byte(strings.Replace(string(rt), "package PKG", "package "+pkgName, 1))
	}
	return nil
}

func (e *Engine) Load() error {
	if err := e.buildOverlay(); err != nil {
		return err
	}
	cfg := &packages.Config{
		Mode:    packages.LoadAllSyntax,
		Dir:     e.repo,
		Overlay: e.overlay,
		Env:     append(os.Environ(), "GOFLAGS=-mod=readonly", "GOPROXY=off", "GOSUMDB=off", "GOTOOLCHAIN=local"),
	}
	var patterns []string
	for _, ip := range harnessPkgs {
		patterns = append(patterns, ip)
	}
	patterns = append(patterns, modPath+"/pkg/layerexts", modPath+"/pkg/iana")
	pkgs, err := packages.Load(cfg, patterns...)
	if err != nil {
		return err
	}
	nerr := 0
	packages.Visit(pkgs, nil, func(p *packages.Package) {
		for _, e := range p.Errors {
			fmt.Fprintln(os.Stderr, "load error:", e)
			nerr++
		}
	})
	if nerr > 0 {
		return fmt.Errorf("%d package load errors (does /repo build?)", nerr)
	}
	prog, _ := ssautil.AllPackages(pkgs, ssa.InstantiateGenerics)
	prog.Build()
	e.prog = prog
	e.pkgs = map[string]*ssa.Package{}
	e.eager = map[*ssa.Package]bool{}
	for _, p := range prog.AllPackages() {
		e.pkgs[p.Pkg.Path()] = p
		if strings.HasPrefix(p.Pkg.Path(), modPath) {
			e.eager[p] = true
		}
	}
	e.methCache = map[string]*ssa.Function{}
	if ep := e.pkgs["errors"]; ep != nil {
		if t := ep.Type("errorString"); t != nil {
			e.errString = types.NewPointer(t.Type())
		}
	}
	return nil
}

func (e *Engine) findHarness(name string) (*HarnessSpec, error) {
	parts := strings.SplitN(name, ".", 2)
	if len(parts) != 2 {
		return nil, fmt.Errorf("harness name must be <pkgdir>.<Func>: %q", name)
	}
	ip, ok := harnessPkgs[parts[0]]
	if !ok {
		return nil, fmt.Errorf("unknown harness package %q", parts[0])
	}
	p := e.pkgs[ip]
	if p == nil {
		return nil, fmt.Errorf("package %s not loaded", ip)
	}
	fn := p.Func(parts[1])
	if fn == nil {
		return nil, fmt.Errorf("harness function %s not found in %s", parts[1], ip)
	}
	return &HarnessSpec{Name: name, Pkg: ip, Func: parts[1], fn: fn}, nil
}

func (e *Engine) lookupMethod(t types.Type, m *types.Func) *ssa.Function {
	key := types.TypeString(t, nil) + "|" + m.Id()
	e.mu.Lock()
	if f, ok := e.methCache[key]; ok {
		e.mu.Unlock()
		return f
	}
	e.mu.Unlock()
	f := e.prog.LookupMethod(t, m.Pkg(), m.Name())
	e.mu.Lock()
	e.methCache[key] = f
	e.mu.Unlock()
	return f
}

func (e *Engine) namedType(pkg, name string, ptr bool) types.Type {
	p := e.pkgs[pkg]
	if p == nil {
		return types.Typ[types.UnsafePointer]
	}
	m := p.Type(name)
	if m == nil {
		return types.Typ[types.UnsafePointer]
	}
	if ptr {
		return types.NewPointer(m.Type())
	}
	return m.Type()
}

// ---- globals and initialisation ----

func (ex *Exec) globalAddr(g *ssa.Global) *Value {
	if p, ok := ex.globals[g]; ok {
		return p
	}
	p := new(Value)
	*p = ex.zero(deref(g.Type()))
	ex.globals[g] = p
	if g.Pkg != nil && !ex.eng.eager[g.Pkg] {
		ex.lazyInit(g)
	}
	return p
}

// initEager runs the package initialisers of the repository's own packages.
func (ex *Exec) initEager() {
	for _, name := range []string{ex.h.Pkg} {
		p := ex.eng.pkgs[name]
		ex.runInit(p)
	}
}

func (ex *Exec) runInit(p *ssa.Package) {
	if ex.pkgInit[p] {
		return
	}
	ex.pkgInit[p] = true
	initFn := p.Func("init")
	if initFn == nil {
		return
	}
	ex.callFunction(nil, initFn, nil, nil, 0)
}

// rootOf follows address computations back to their base value.
func rootOf(v ssa.Value) ssa.Value {
	for {
		switch x := v.(type) {
		case *ssa.FieldAddr:
			v = x.X
		case *ssa.IndexAddr:
			v = x.X
		case *ssa.Slice:
			v = x.X
		case *ssa.ChangeType:
			v = x.X
		default:
			return v
		}
	}
}

// lazyInit executes the slice of the package initialiser that computes global g.
func (ex *Exec) lazyInit(g *ssa.Global) {
	initFn := g.Pkg.Func("init")
	if initFn == nil || ex.lazyIn[g] {
		return
	}
	ex.lazyIn[g] = true
	// initialisation happens before any operation in a real program: not part of a footprint
	savedFP := ex.fp
	ex.fp = nil
	defer func() { ex.fp = savedFP }()
	list := ex.eng.lazySlice(g, initFn)
	if len(list) == 0 {
		return // zero-initialised global
	}
	fr := &frame{ex: ex, fn: initFn, env: map[ssa.Value]Value{}}
	for _, in := range list {
		switch x := in.(type) {
		case *ssa.Phi, *ssa.If, *ssa.Jump, *ssa.Return:
			ex.unsupported(fmt.Sprintf("initialiser of %s needs control flow (%T)", g, in))
		case *ssa.Alloc:
			p := new(Value)
			*p = ex.zero(deref(x.Type()))
			fr.env[x] = p
			continue
		}
		ex.steps++
		ex.visitInstr(fr, in)
	}
}

// lazySlice computes (once per global) the instructions of the package initialiser
// that contribute to the initial value of g, in program order.
func (e *Engine) lazySlice(g *ssa.Global, initFn *ssa.Function) []ssa.Instruction {
	e.mu.Lock()
	if l, ok := e.lazyCache[g]; ok {
		e.mu.Unlock()
		return l
	}
	e.mu.Unlock()
	var all []ssa.Instruction
	for _, b := range initFn.Blocks {
		all = append(all, b.Instrs...)
	}
	inSet := map[ssa.Instruction]bool{}
	valSet := map[ssa.Value]bool{g: true}
	var addOperands func(in ssa.Instruction)
	addOperands = func(in ssa.Instruction) {
		var ops []*ssa.Value
		ops = in.Operands(ops)
		for _, op := range ops {
			if *op == nil {
				continue
			}
			if oi, ok := (*op).(ssa.Instruction); ok && oi.Parent() == initFn {
				if !inSet[oi] {
					inSet[oi] = true
					valSet[*op] = true
					addOperands(oi)
				}
			}
		}
	}
	// candidate mutating instructions only
	var muts []ssa.Instruction
	for _, in := range all {
		switch in.(type) {
		case *ssa.Store, *ssa.MapUpdate:
			muts = append(muts, in)
		}
	}
	changed := true
	for changed {
		changed = false
		for _, in := range muts {
			if inSet[in] {
				continue
			}
			var target ssa.Value
			switch s := in.(type) {
			case *ssa.Store:
				target = rootOf(s.Addr)
			case *ssa.MapUpdate:
				target = rootOf(s.Map)
			}
			if valSet[target] {
				inSet[in] = true
				addOperands(in)
				changed = true
			}
		}
	}
	var list []ssa.Instruction
	for _, in := range all {
		if inSet[in] {
			list = append(list, in)
		}
	}
	e.mu.Lock()
	if e.lazyCache == nil {
		e.lazyCache = map[*ssa.Global][]ssa.Instruction{}
	}
	e.lazyCache[g] = list
	e.mu.Unlock()
	return list
}

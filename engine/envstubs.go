package main

// Stubs for the environment: prometheus metrics (ghost counters), cenkalti/backoff,
// context, time.

import (
	"fmt"
	"go/types"
	"math"
	"strings"

	"golang.org/x/tools/go/ssa"
)

func mathConst(name string, ts []*Term) float64 {
	x := ts[0].Float()
	switch name {
	case "Log":
		return math.Log(x)
	case "Log2":
		return math.Log2(x)
	case "Log10":
		return math.Log10(x)
	case "Exp":
		return math.Exp(x)
	case "Exp2":
		return math.Exp2(x)
	case "Cbrt":
		return math.Cbrt(x)
	case "Pow":
		return math.Pow(x, ts[1].Float())
	}
	return math.NaN()
}

// ---- prometheus ----

type MetricObj struct {
	name   string
	kind   string
	labels []Value
}

func (m *MetricObj) HasMethod(name string) bool { return true }

func (m *MetricObj) Invoke(ex *Exec, fr *frame, method string, args []Value) Value {
	switch method {
	case "WithLabelValues":
		return Iface{t: ex.eng.namedType("github.com/prometheus/client_golang/prometheus", "counter", true),
			v: &MetricObj{name: m.name, kind: m.kind, labels: append([]Value{}, variadic(args[0])...)}}
	case "Inc":
		ex.metrics = append(ex.metrics, metricEvent{name: m.name, labels: m.labels, delta: 1, kind: "inc"})
	case "Dec":
		ex.metrics = append(ex.metrics, metricEvent{name: m.name, labels: m.labels, delta: -1, kind: "dec"})
	case "Add", "Sub", "Set":
		t := args[0].(*Term)
		if t.IsConst() && t.sort.K == SFP {
			d := int(t.Float())
			if method == "Sub" {
				d = -d
			}
			ex.metrics = append(ex.metrics, metricEvent{name: m.name, labels: m.labels, delta: d, kind: strings.ToLower(method)})
		} else {
			ex.unsupported("metric " + method + " with symbolic value")
		}
	case "Observe", "ObserveDuration":
		ex.metrics = append(ex.metrics, metricEvent{name: m.name, labels: m.labels, delta: 0, kind: "observe"})
		if method == "ObserveDuration" {
			return ex.tt.BV(64, 0)
		}
	case "Describe", "Collect":
	default:
		ex.unsupported("prometheus method " + method)
	}
	return nil
}

func (ex *Exec) metricTotal(name string, label Value) int {
	n := 0
	for _, e := range ex.metrics {
		if e.name == name {
			n += e.delta
		}
	}
	return n
}

// metricLabelled sums the deltas of events whose first label equals the given value
// (as a term, since labels may be symbolic).
func (ex *Exec) metricLabelled(name string, label Value) Value {
	tt := ex.tt
	acc := tt.BV(64, 0)
	for _, e := range ex.metrics {
		if e.name != name || len(e.labels) == 0 {
			continue
		}
		eq := ex.equalLoose(e.labels[0], label)
		acc = tt.Bin(OAdd, acc, tt.Ite(eq, tt.BV(64, uint64(int64(e.delta))), tt.BV(64, 0)))
	}
	return acc
}

func (ex *Exec) promCall(fr *frame, fn *ssa.Function, args []Value) Value {
	name := fn.Name()
	full := fn.String()
	promT := func(n string) types.Type {
		return ex.eng.namedType("github.com/prometheus/client_golang/prometheus", n, true)
	}
	optsName := func(v Value, t types.Type) string {
		s, ok := v.(Struct)
		if !ok {
			return "?"
		}
		st, ok := under(t).(*types.Struct)
		if !ok {
			return "?"
		}
		var ns, sub, nm string
		for i := 0; i < st.NumFields(); i++ {
			str, _ := s[i].(string)
			switch st.Field(i).Name() {
			case "Namespace":
				ns = str
			case "Subsystem":
				sub = str
			case "Name":
				nm = str
			}
		}
		var parts []string
		for _, p := range []string{ns, sub, nm} {
			if p != "" {
				parts = append(parts, p)
			}
		}
		return strings.Join(parts, "_")
	}
	switch {
	case strings.HasPrefix(name, "New") && strings.Contains(full, "promauto."),
		strings.HasPrefix(name, "NewCounter"), strings.HasPrefix(name, "NewGauge"), strings.HasPrefix(name, "NewHistogram"), strings.HasPrefix(name, "NewSummary"):
		mname := optsName(args[0], fn.Signature.Params().At(0).Type())
		kind := strings.TrimPrefix(name, "New")
		res := fn.Signature.Results().At(0).Type()
		obj := &MetricObj{name: mname, kind: kind}
		if _, isIface := under(res).(*types.Interface); isIface {
			return Iface{t: promT("counter"), v: obj}
		}
		// pointer to a Vec type: represent as the stub object itself
		return obj
	case name == "ExponentialBuckets" || name == "LinearBuckets" || name == "DefBuckets":
		return Slice{}
	case name == "NewTimer":
		return &MetricObj{name: "timer", kind: "Timer"}
	case name == "MustRegister" || name == "Register" || name == "Unregister":
		return nil
	}
	// method on a stub object (static call on *CounterVec etc.)
	if len(args) > 0 {
		if so, ok := args[0].(*MetricObj); ok {
			return so.Invoke(ex, fr, name, args[1:])
		}
		if iv, ok := args[0].(Iface); ok {
			if so, ok := iv.v.(*MetricObj); ok {
				return so.Invoke(ex, fr, name, args[1:])
			}
		}
	}
	ex.unsupported("prometheus call " + full)
	return nil
}

// ---- backoff / context / time ----

type BackoffObj struct {
	ctx   Value // Iface context or nil
	inner Value // the wrapped BackOff (Iface), if any
}

func (b *BackoffObj) HasMethod(name string) bool {
	return name == "Reset" || name == "NextBackOff" || name == "Context"
}
func (b *BackoffObj) Invoke(ex *Exec, fr *frame, method string, args []Value) Value {
	switch method {
	case "Reset":
		return nil
	case "NextBackOff":
		return ex.tt.BV(64, 0)
	case "Context":
		return b.ctx
	}
	ex.unsupported("backoff method " + method)
	return nil
}

type CtxObj struct {
	parent   Value // Iface
	deadline *Term // 64-bit logical instant, nil if none
	id       int
	cancelled bool
}

func (c *CtxObj) HasMethod(name string) bool {
	switch name {
	case "Deadline", "Done", "Err", "Value":
		return true
	}
	return false
}

func (c *CtxObj) Invoke(ex *Exec, fr *frame, method string, args []Value) Value {
	switch method {
	case "Err":
		if c.cancelled {
			return ex.mkError("context canceled", nil)
		}
		if c.deadline != nil && ex.clock != nil {
			expired := ex.tt.Cmp(OSle, c.deadline, ex.clock)
			if ex.branch(expired) {
				return ex.mkError("context deadline exceeded", nil)
			}
		}
		if p, ok := c.parent.(Iface); ok && p.t != nil {
			if pc, ok := p.v.(*CtxObj); ok {
				return pc.Invoke(ex, fr, "Err", nil)
			}
		}
		return nilErr()
	case "Value":
		return Iface{}
	case "Deadline":
		ex.unsupported("ctx.Deadline on stub context (use vCtxDeadline)")
	case "Done":
		ex.unsupported("ctx.Done on stub context")
	}
	ex.unsupported("context method " + method)
	return nil
}

// effective deadline of a context chain (nil = none)
func (ex *Exec) ctxDeadline(v Value) *Term {
	iv, ok := v.(Iface)
	if !ok || iv.t == nil {
		return nil
	}
	c, ok := iv.v.(*CtxObj)
	if !ok {
		return nil
	}
	return c.deadline
}

func (ex *Exec) ctxType() types.Type {
	return ex.eng.namedType("context", "timerCtx", true)
}

// TransportObj stands for the UDP transport returned by transport.New.
type TransportObj struct{ closed bool }

func (t *TransportObj) HasMethod(name string) bool {
	return name == "Close" || name == "Address" || name == "Send"
}
func (t *TransportObj) Invoke(ex *Exec, fr *frame, method string, args []Value) Value {
	switch method {
	case "Close":
		t.closed = true
		return nilErr()
	case "Address":
		return Iface{}
	}
	ex.unsupported("real UDP transport method " + method + " (harnesses use a fake transport)")
	return nil
}

func registerEnvStubs() {
	// internal/pkg/transport.New: succeeds for a literal IP address (no name resolution
	// needed), fails for anything else
	stubTable["github.com/gebn/bmc/internal/pkg/transport.New"] = func(ex *Exec, fr *frame, args []Value) Value {
		addr := ex.concStr(args[0], "transport address")
		ok := len(addr) > 0 && addr[0] >= '0' && addr[0] <= '9'
		if !ok {
			return Tuple{Iface{}, ex.mkError("cannot resolve address", nil)}
		}
		return Tuple{Iface{t: ex.eng.namedType("github.com/gebn/bmc/internal/pkg/transport", "transport", true), v: &TransportObj{}}, nilErr()}
	}
	bo := func(ex *Exec) Value {
		return &BackoffObj{}
	}
	stubTable["github.com/cenkalti/backoff/v4.NewExponentialBackOff"] = func(ex *Exec, fr *frame, args []Value) Value {
		// returns *ExponentialBackOff; the library stores it in a BackOff interface
		return bo(ex)
	}
	stubTable["github.com/cenkalti/backoff/v4.WithContext"] = func(ex *Exec, fr *frame, args []Value) Value {
		return Iface{t: ex.eng.namedType("github.com/cenkalti/backoff/v4", "backOffContext", true), v: &BackoffObj{ctx: args[1], inner: args[0]}}
	}
	stubTable["github.com/cenkalti/backoff/v4.Retry"] = func(ex *Exec, fr *frame, args []Value) Value {
		return ex.backoffRetry(fr, args[0], args[1])
	}
	stubTable["context.WithTimeout"] = func(ex *Exec, fr *frame, args []Value) Value {
		ex.nCtx++
		c := &CtxObj{parent: args[0], id: ex.nCtx}
		pd := ex.ctxDeadline(args[0])
		if ex.clock != nil {
			d := ex.tt.Bin(OAdd, ex.clock, args[1].(*Term))
			if pd != nil {
				d = ex.tt.Ite(ex.tt.Cmp(OSlt, pd, d), pd, d)
			}
			c.deadline = d
		} else {
			c.deadline = pd
		}
		cancel := &StubFunc{name: "cancel", call: func(ex *Exec, args []Value) Value { c.cancelled = true; return nil }}
		return Tuple{Iface{t: ex.ctxType(), v: c}, cancel}
	}
	stubTable["context.WithCancel"] = func(ex *Exec, fr *frame, args []Value) Value {
		ex.nCtx++
		c := &CtxObj{parent: args[0], id: ex.nCtx, deadline: ex.ctxDeadline(args[0])}
		cancel := &StubFunc{name: "cancel", call: func(ex *Exec, args []Value) Value { c.cancelled = true; return nil }}
		return Tuple{Iface{t: ex.ctxType(), v: c}, cancel}
	}
	stubTable["context.Background"] = func(ex *Exec, fr *frame, args []Value) Value {
		return Iface{t: ex.ctxType(), v: &CtxObj{}}
	}
	stubTable["context.TODO"] = stubTable["context.Background"]
}

// ctxDone reports whether a stub context chain is cancelled or (in logical-clock mode)
// past its deadline.
func (ex *Exec) ctxDone(v Value) bool {
	for {
		iv, ok := v.(Iface)
		if !ok || iv.t == nil {
			return false
		}
		c, ok := iv.v.(*CtxObj)
		if !ok {
			return false
		}
		if c.cancelled {
			return true
		}
		if c.deadline != nil && ex.clock != nil {
			if ex.branch(ex.tt.Cmp(OSle, c.deadline, ex.clock)) {
				return true
			}
		}
		v = c.parent
	}
}

// backoffRetry models backoff.Retry(op, b) of cenkalti/backoff v4.3.0. Without a logical
// clock: call op until it succeeds or the context attached to b is done. With a logical
// clock (C13): after a failed attempt the policy's NextBackOff() is slept, or, if the
// attached context's deadline comes first, the clock moves to the deadline and the
// context's error is returned - exactly the select between the timer and ctx.Done(). A
// back-off without an attached context sleeps regardless of any context. The policy's own
// stop (MaxElapsedTime, 15 minutes) is outside the bound; more than retryBound failed
// attempts end the path as UNWIND (inconclusive, never success).
func (ex *Exec) backoffRetry(fr *frame, op Value, b Value) Value {
	var ctx, inner Value
	inner = b
	if iv, ok := b.(Iface); ok {
		if bo, ok := iv.v.(*BackoffObj); ok {
			ctx = bo.ctx
			if bo.inner != nil {
				inner = bo.inner
			}
		}
	}
	bound := ex.retryBound
	if bound <= 0 {
		bound = 4
	}
	tt := ex.tt
	for i := 1; ; i++ {
		ex.retryAttempts++
		err := ex.callValue(fr, op, nil, 0)
		if e, ok := err.(Iface); ok && e.t == nil {
			return nilErr()
		}
		if ex.ctxDone(ctx) {
			return ex.mkError("context done", nil)
		}
		if i >= bound {
			panic(&pathEnd{reason: "unwind", detail: fmt.Sprintf("backoff.Retry: more than %d failed attempts without the context ending", bound)})
		}
		if ex.clock != nil {
			next := tt.BV(64, 0)
			if iv, ok := inner.(Iface); ok && iv.t != nil {
				if _, stub := iv.v.(StubObject); !stub {
					if m := ex.eng.prog.LookupMethod(iv.t, nil, "NextBackOff"); m != nil {
						next = ex.callFunction(fr, m, []Value{iv.v}, nil, 0).(*Term)
					}
				}
			}
			wake := tt.Bin(OAdd, ex.clock, next)
			if dl := ex.ctxDeadline(ctx); dl != nil {
				if ex.branch(tt.Cmp(OSle, dl, wake)) {
					ex.clock = dl
					return ex.mkError("context deadline exceeded", nil)
				}
			}
			ex.clock = wake
		}
	}
}

var _ = fmt.Sprintf

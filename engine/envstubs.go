package main

// Stubs for the environment: prometheus metrics (ghost counters), cenkalti/backoff,
// context, time.

import (
	"fmt"
	"go/types"
	"math"
	"strings"

	"golang.org/x/tools/go/ssa"
)

func mathConst(name string, ts []*Term) float64 {
	x := ts[0].Float()
	switch name {
	case "Log":
		return math.Log(x)
	case "Log2":
		return math.Log2(x)
	case "Log10":
		return math.Log10(x)
	case "Exp":
		return math.Exp(x)
	case "Exp2":
		return math.Exp2(x)
	case "Cbrt":
		return math.Cbrt(x)
	case "Pow":
		return math.Pow(x, ts[1].Float())
	}
	return math.NaN()
}

// ---- prometheus ----

type MetricObj struct {
	name   string
	kind   string
	labels []Value
}

func (m *MetricObj) HasMethod(name string) bool { return true }

func (m *MetricObj) Invoke(ex *Exec, fr *frame, method string, args []Value) Value {
	switch method {
	case "WithLabelValues":
		return Iface{t: ex.eng.namedType("github.com/prometheus/client_golang/prometheus", "counter", true),
			v: &MetricObj{name: m.name, kind: m.kind, labels: append([]Value{}, variadic(args[0])...)}}
	case "Inc":
		ex.metrics = append(ex.metrics, metricEvent{name: m.name, labels: m.labels, delta: 1, kind: "inc"})
	case "Dec":
		ex.metrics = append(ex.metrics, metricEvent{name: m.name, labels: m.labels, delta: -1, kind: "dec"})
	case "Add", "Sub", "Set":
		t := args[0].(*Term)
		if t.IsConst() && t.sort.K == SFP {
			d := int(t.Float())
			if method == "Sub" {
				d = -d
			}
			ex.metrics = append(ex.metrics, metricEvent{name: m.name, labels: m.labels, delta: d, kind: strings.ToLower(method)})
		} else {
			ex.unsupported("metric " + method + " with symbolic value")
		}
	case "Observe", "ObserveDuration":
		ex.metrics = append(ex.metrics, metricEvent{name: m.name, labels: m.labels, delta: 0, kind: "observe"})
		if method == "ObserveDuration" {
			return ex.tt.BV(64, 0)
		}
	case "Describe", "Collect":
	default:
		ex.unsupported("prometheus method " + method)
	}
	return nil
}

func (ex *Exec) metricTotal(name string, label Value) int {
	n := 0
	for _, e := range ex.metrics {
		if e.name == name {
			n += e.delta
		}
	}
	return n
}

// metricLabelled sums the deltas of events whose first label equals the given value
// (as a term, since labels may be symbolic).
func (ex *Exec) metricLabelled(name string, label Value) Value {
	tt := ex.tt
	acc := tt.BV(64, 0)
	for _, e := range ex.metrics {
		if e.name != name || len(e.labels) == 0 {
			continue
		}
		eq := ex.equalLoose(e.labels[0], label)
		acc = tt.Bin(OAdd, acc, tt.Ite(eq, tt.BV(64, uint64(int64(e.delta))), tt.BV(64, 0)))
	}
	return acc
}

func (ex *Exec) promCall(fr *frame, fn *ssa.Function, args []Value) Value {
	name := fn.Name()
	full := fn.String()
	promT := func(n string) types.Type {
		return ex.eng.namedType("github.com/prometheus/client_golang/prometheus", n, true)
	}
	optsName := func(v Value, t types.Type) string {
		s, ok := v.(Struct)
		if !ok {
			return "?"
		}
		st, ok := under(t).(*types.Struct)
		if !ok {
			return "?"
		}
		var ns, sub, nm string
		for i := 0; i < st.NumFields(); i++ {
			str, _ := s[i].(string)
			switch st.Field(i).Name() {
			case "Namespace":
				ns = str
			case "Subsystem":
				sub = str
			case "Name":
				nm = str
			}
		}
		var parts []string
		for _, p := range []string{ns, sub, nm} {
			if p != "" {
				parts = append(parts, p)
			}
		}
		return strings.Join(parts, "_")
	}
	switch {
	case strings.HasPrefix(name, "New") && strings.Contains(full, "promauto."),
		strings.HasPrefix(name, "NewCounter"), strings.HasPrefix(name, "NewGauge"), strings.HasPrefix(name, "NewHistogram"), strings.HasPrefix(name, "NewSummary"):
		mname := optsName(args[0], fn.Signature.Params().At(0).Type())
		kind := strings.TrimPrefix(name, "New")
		res := fn.Signature.Results().At(0).Type()
		obj := &MetricObj{name: mname, kind: kind}
		if _, isIface := under(res).(*types.Interface); isIface {
			return Iface{t: promT("counter"), v: obj}
		}
		// pointer to a Vec type: represent as the stub object itself
		return obj
	case name == "ExponentialBuckets" || name == "LinearBuckets" || name == "DefBuckets":
		return Slice{}
	case name == "NewTimer":
		return &MetricObj{name: "timer", kind: "Timer"}
	case name == "MustRegister" || name == "Register" || name == "Unregister":
		return nil
	}
	// method on a stub object (static call on *CounterVec etc.)
	if len(args) > 0 {
		if so, ok := args[0].(*MetricObj); ok {
			return so.Invoke(ex, fr, name, args[1:])
		}
		if iv, ok := args[0].(Iface); ok {
			if so, ok := iv.v.(*MetricObj); ok {
				return so.Invoke(ex, fr, name, args[1:])
			}
		}
	}
	ex.unsupported("prometheus call " + full)
	return nil
}

// ---- backoff / context / time ----

type BackoffObj struct {
	ctx   Value // Iface context or nil
	inner Value // the wrapped BackOff (Iface), if any
}

func (b *BackoffObj) HasMethod(name string) bool {
	return name == "Reset" || name == "NextBackOff" || name == "Context"
}
func (b *BackoffObj) Invoke(ex *Exec, fr *frame, method string, args []Value) Value {
	switch method {
	case "Reset":
		return nil
	case "NextBackOff":
		if ex.clock == nil {
			return ex.tt.BV(64, 0)
		}
		// ExponentialBackOff with the default settings: the first interval is 500 ms
		// randomised by +-50 %, later ones grow; modelled as an arbitrary delay of
		// 250 ms .. 5 s (not part of the replay tape: natively the real policy sleeps)
		d := ex.freshBV(64, "backoffdelay")
		ex.assume(ex.tt.Cmp(OSle, ex.tt.BV(64, 250_000_000), d))
		ex.assume(ex.tt.Cmp(OSle, d, ex.tt.BV(64, 5_000_000_000)))
		return d
	case "Context":
		return b.ctx
	}
	ex.unsupported("backoff method " + method)
	return nil
}

type CtxObj struct {
	parent    Value // Iface
	deadline  *Term // 64-bit logical instant, nil if none
	id        int
	cancelled bool
}

func (c *CtxObj) HasMethod(name string) bool {
	switch name {
	case "Deadline", "Done", "Err", "Value":
		return true
	}
	return false
}

func (c *CtxObj) Invoke(ex *Exec, fr *frame, method string, args []Value) Value {
	switch method {
	case "Err":
		if c.cancelled {
			return ex.ctxErrValue("Canceled", "context canceled")
		}
		if c.deadline != nil && ex.clock != nil {
			expired := ex.tt.Cmp(OSle, c.deadline, ex.clock)
			if ex.branch(expired) {
				return ex.ctxErrValue("DeadlineExceeded", "context deadline exceeded")
			}
		}
		if p, ok := c.parent.(Iface); ok && p.t != nil {
			if pc, ok := p.v.(*CtxObj); ok {
				return pc.Invoke(ex, fr, "Err", nil)
			}
		}
		return nilErr()
	case "Value":
		return Iface{}
	case "Deadline":
		if c.deadline == nil || ex.clock == nil {
			return Tuple{ex.zero(ex.eng.namedType("time", "Time", false)), ex.tt.Bool(false)}
		}
		return Tuple{ex.clockTime(c.deadline), ex.tt.Bool(true)}
	case "Done":
		ex.unsupported("ctx.Done on stub context")
	}
	ex.unsupported("context method " + method)
	return nil
}

// effective deadline of a context chain (nil = none)
func (ex *Exec) ctxDeadline(v Value) *Term {
	iv, ok := v.(Iface)
	if !ok || iv.t == nil {
		return nil
	}
	c, ok := iv.v.(*CtxObj)
	if !ok {
		// a context type defined by the code under test (e.g. a struct embedding a
		// context and overriding Deadline): ask it
		if _, stub := iv.v.(StubObject); stub || ex.curFrame == nil {
			return nil
		}
		sel := ex.eng.prog.MethodSets.MethodSet(iv.t).Lookup(nil, "Deadline")
		if sel == nil {
			return nil
		}
		m := ex.eng.prog.MethodValue(sel)
		if m == nil {
			return nil
		}
		r, ok := ex.callFunction(ex.curFrame, m, []Value{iv.v}, nil, 0).(Tuple)
		if !ok || len(r) != 2 {
			return nil
		}
		if has, ok := r[1].(*Term); ok && ex.branch(has) {
			return ex.timeToInstant(r[0])
		}
		return nil
	}
	return c.deadline
}

func (ex *Exec) ctxType() types.Type {
	return ex.eng.namedType("context", "timerCtx", true)
}

// TransportObj stands for the UDP transport returned by transport.New.
type TransportObj struct{ closed bool }

func (t *TransportObj) HasMethod(name string) bool {
	return name == "Close" || name == "Address" || name == "Send"
}
func (t *TransportObj) Invoke(ex *Exec, fr *frame, method string, args []Value) Value {
	switch method {
	case "Close":
		t.closed = true
		return nilErr()
	case "Address":
		return Iface{}
	}
	ex.unsupported("real UDP transport method " + method + " (harnesses use a fake transport)")
	return nil
}

// ---- *net.UDPConn (only for the transport harness of C13) ----
//
// One stub socket per path. Deadlines are instants of the logical clock. A read returns
// according to the script the harness set with vScriptReply: the scripted datagram at
// now+delay if that is before the read deadline, otherwise a timeout error at the read
// deadline; with no read deadline a lost reply blocks for ever, which ends the path with
// the harness's "c13-blocked-forever" assertion.
type udpState struct {
	readDL, writeDL *Term
	kind            int // 0 lost, 1 reply
	delay           *Term
	payload         []*Term
	writes          int
}

func (ex *Exec) timeToInstant(v Value) *Term {
	st, ok := v.(Struct)
	if !ok || len(st) < 2 {
		return nil
	}
	wall, ext := st[0].(*Term), st[1].(*Term)
	if wall.IsConst() && wall.cval>>63 == 1 {
		return ext
	}
	if wall.IsConst() && wall.cval == 0 && ext.IsConst() && ext.cval == 0 {
		return nil // zero time: no deadline
	}
	ex.unsupported("socket deadline that is not an instant of the logical clock")
	return nil
}

func registerUDPStubs() {
	setDL := func(which int) stubFn {
		return func(ex *Exec, fr *frame, args []Value) Value {
			if ex.udp == nil {
				ex.udp = &udpState{}
			}
			d := ex.timeToInstant(args[1])
			if which&1 != 0 {
				ex.udp.readDL = d
			}
			if which&2 != 0 {
				ex.udp.writeDL = d
			}
			return nilErr()
		}
	}
	stubTable["(*net.conn).SetReadDeadline"] = setDL(1)
	stubTable["(*net.conn).SetWriteDeadline"] = setDL(2)
	stubTable["(*net.conn).SetDeadline"] = setDL(3)
	stubTable["(*net.conn).Close"] = func(ex *Exec, fr *frame, args []Value) Value { return nilErr() }
	stubTable["(*net.conn).RemoteAddr"] = func(ex *Exec, fr *frame, args []Value) Value { return Iface{} }
	stubTable["(*net.conn).Write"] = func(ex *Exec, fr *frame, args []Value) Value {
		if ex.udp == nil {
			ex.udp = &udpState{}
		}
		ex.udp.writes++
		n := len(args[1].(Slice).data)
		// a write whose deadline has passed fails
		if ex.udp.writeDL != nil && ex.clock != nil && ex.branch(ex.tt.Cmp(OSle, ex.udp.writeDL, ex.clock)) {
			return Tuple{ex.tt.BV(64, 0), ex.mkError("write: i/o timeout", nil)}
		}
		return Tuple{ex.tt.BV(64, uint64(n)), nilErr()}
	}
	stubTable["(*net.UDPConn).ReadFromUDP"] = func(ex *Exec, fr *frame, args []Value) Value {
		tt := ex.tt
		if ex.udp == nil || ex.clock == nil {
			ex.unsupported("UDP read outside the transport harness")
		}
		u := ex.udp
		buf := args[1].(Slice)
		timeout := func() Value {
			ex.clock = u.readDL
			return Tuple{tt.BV(64, 0), (*Value)(nil), ex.mkError("read: i/o timeout", nil)}
		}
		if u.readDL != nil && ex.branch(tt.Cmp(OSle, u.readDL, ex.clock)) {
			return timeout()
		}
		if u.kind == 0 {
			if u.readDL == nil {
				// the read never returns: the watchdog armed by the harness decides
				label := ex.watchdogLabel
				if label == "" {
					label = "read-blocks-for-ever"
				}
				if tape, ok := ex.model(nil); ok {
					ex.violation("assert", label, "socket read without a deadline and no reply: blocks for ever", tape)
				} else {
					ex.out.nUnknown++
				}
				panic(&pathEnd{reason: "done", detail: "read blocked for ever"})
			}
			return timeout()
		}
		at := tt.Bin(OAdd, ex.clock, u.delay)
		if u.readDL != nil && ex.branch(tt.Cmp(OSle, u.readDL, at)) {
			return timeout()
		}
		ex.clock = at
		u.kind = 0 // the peer answers each request once: the datagram is consumed
		n := len(u.payload)
		if n > len(buf.data) {
			n = len(buf.data)
		}
		for i := 0; i < n; i++ {
			buf.data[i] = u.payload[i]
		}
		return Tuple{tt.BV(64, uint64(n)), (*Value)(nil), nilErr()}
	}
}

// clockTime represents an instant of the logical clock as a time.Time carrying only a
// monotonic reading (wall = hasMonotonic, ext = nanoseconds), so that Before/After/Sub/
// Since/Until executed from their real SSA compare the logical instants.
func (ex *Exec) clockTime(ns *Term) Value {
	return Struct{ex.tt.BV(64, 1<<63), ns, (*Value)(nil)}
}

func registerEnvStubs() {
	registerUDPStubs()
	stubTable["time.Since"] = func(ex *Exec, fr *frame, args []Value) Value {
		t := ex.timeToInstant(args[0])
		if ex.clock == nil || t == nil {
			ex.unsupported("time.Since outside logical-clock mode")
		}
		return ex.tt.Bin(OSub, ex.clock, t)
	}
	stubTable["time.Sleep"] = func(ex *Exec, fr *frame, args []Value) Value {
		if ex.clock == nil {
			return nil // time does not exist outside logical-clock mode
		}
		d := args[0].(*Term)
		pos := ex.tt.Cmp(OSlt, ex.tt.BV(64, 0), d)
		ex.clock = ex.tt.Bin(OAdd, ex.clock, ex.tt.Ite(pos, d, ex.tt.BV(64, 0)))
		return nil
	}
	stubTable["time.Until"] = func(ex *Exec, fr *frame, args []Value) Value {
		t := ex.timeToInstant(args[0])
		if ex.clock == nil || t == nil {
			ex.unsupported("time.Until outside logical-clock mode")
		}
		return ex.tt.Bin(OSub, t, ex.clock)
	}
	stubTable["time.Now"] = func(ex *Exec, fr *frame, args []Value) Value {
		if ex.clock == nil {
			ex.unsupported("time.Now outside logical-clock mode")
		}
		return ex.clockTime(ex.clock)
	}
	// internal/pkg/transport.New: succeeds for a literal IP address (no name resolution
	// needed), fails for anything else
	stubTable["github.com/gebn/bmc/internal/pkg/transport.New"] = func(ex *Exec, fr *frame, args []Value) Value {
		addr := ex.concStr(args[0], "transport address")
		ok := len(addr) > 0 && addr[0] >= '0' && addr[0] <= '9'
		if !ok {
			return Tuple{Iface{}, ex.mkError("cannot resolve address", nil)}
		}
		return Tuple{Iface{t: ex.eng.namedType("github.com/gebn/bmc/internal/pkg/transport", "transport", true), v: &TransportObj{}}, nilErr()}
	}
	bo := func(ex *Exec) Value {
		return &BackoffObj{}
	}
	stubTable["github.com/cenkalti/backoff/v4.NewExponentialBackOff"] = func(ex *Exec, fr *frame, args []Value) Value {
		// returns *ExponentialBackOff; the library stores it in a BackOff interface
		return bo(ex)
	}
	stubTable["github.com/cenkalti/backoff/v4.WithContext"] = func(ex *Exec, fr *frame, args []Value) Value {
		return Iface{t: ex.eng.namedType("github.com/cenkalti/backoff/v4", "backOffContext", true), v: &BackoffObj{ctx: args[1], inner: args[0]}}
	}
	stubTable["github.com/cenkalti/backoff/v4.Retry"] = func(ex *Exec, fr *frame, args []Value) Value {
		return ex.backoffRetry(fr, args[0], args[1])
	}
	stubTable["context.WithTimeout"] = func(ex *Exec, fr *frame, args []Value) Value {
		ex.nCtx++
		c := &CtxObj{parent: args[0], id: ex.nCtx}
		pd := ex.ctxDeadline(args[0])
		if ex.clock != nil {
			d := ex.tt.Bin(OAdd, ex.clock, args[1].(*Term))
			if pd != nil {
				d = ex.tt.Ite(ex.tt.Cmp(OSlt, pd, d), pd, d)
			}
			c.deadline = d
		} else {
			c.deadline = pd
		}
		cancel := &StubFunc{name: "cancel", call: func(ex *Exec, args []Value) Value { c.cancelled = true; return nil }}
		return Tuple{Iface{t: ex.ctxType(), v: c}, cancel}
	}
	stubTable["context.WithDeadline"] = func(ex *Exec, fr *frame, args []Value) Value {
		ex.nCtx++
		c := &CtxObj{parent: args[0], id: ex.nCtx}
		d := ex.timeToInstant(args[1])
		if pd := ex.ctxDeadline(args[0]); pd != nil && d != nil {
			d = ex.tt.Ite(ex.tt.Cmp(OSlt, pd, d), pd, d)
		} else if d == nil {
			d = ex.ctxDeadline(args[0])
		}
		c.deadline = d
		cancel := &StubFunc{name: "cancel", call: func(ex *Exec, args []Value) Value { c.cancelled = true; return nil }}
		return Tuple{Iface{t: ex.ctxType(), v: c}, cancel}
	}
	stubTable["context.WithCancel"] = func(ex *Exec, fr *frame, args []Value) Value {
		ex.nCtx++
		c := &CtxObj{parent: args[0], id: ex.nCtx, deadline: ex.ctxDeadline(args[0])}
		cancel := &StubFunc{name: "cancel", call: func(ex *Exec, args []Value) Value { c.cancelled = true; return nil }}
		return Tuple{Iface{t: ex.ctxType(), v: c}, cancel}
	}
	stubTable["context.Background"] = func(ex *Exec, fr *frame, args []Value) Value {
		return Iface{t: ex.ctxType(), v: &CtxObj{}}
	}
	stubTable["context.TODO"] = stubTable["context.Background"]
}

// ctxErrValue is the value of the context package's error variable of that name (so that
// errors.Is and == against context.Canceled / context.DeadlineExceeded behave).
func (ex *Exec) ctxErrValue(name, msg string) Value {
	if pkg := ex.eng.prog.ImportedPackage("context"); pkg != nil {
		if g := pkg.Var(name); g != nil {
			return copyVal(*ex.globalAddr(g))
		}
	}
	return ex.mkError(msg, nil)
}

// ctxDone reports whether a stub context chain is cancelled or (in logical-clock mode)
// past its deadline.
func (ex *Exec) ctxDone(v Value) bool {
	for {
		iv, ok := v.(Iface)
		if !ok || iv.t == nil {
			return false
		}
		c, ok := iv.v.(*CtxObj)
		if !ok {
			return false
		}
		if c.cancelled {
			return true
		}
		if c.deadline != nil && ex.clock != nil {
			if ex.branch(ex.tt.Cmp(OSle, c.deadline, ex.clock)) {
				return true
			}
		}
		v = c.parent
	}
}

// backoffRetry models backoff.Retry(op, b) of cenkalti/backoff v4.3.0. Without a logical
// clock: call op until it succeeds or the context attached to b is done. With a logical
// clock (C13): after a failed attempt the policy's NextBackOff() is slept, or, if the
// attached context's deadline comes first, the clock moves to the deadline and the
// context's error is returned - exactly the select between the timer and ctx.Done(). A
// back-off without an attached context sleeps regardless of any context. The policy's own
// stop (MaxElapsedTime, 15 minutes) is outside the bound; more than retryBound failed
// attempts end the path as UNWIND (inconclusive, never success).
func (ex *Exec) backoffRetry(fr *frame, op Value, b Value) Value {
	var ctx, inner Value
	inner = b
	if iv, ok := b.(Iface); ok {
		if bo, ok := iv.v.(*BackoffObj); ok {
			ctx = bo.ctx
			if bo.inner != nil {
				inner = bo.inner
			}
		}
	}
	bound := ex.retryBound
	if bound <= 0 {
		bound = 4
	}
	tt := ex.tt
	for i := 1; ; i++ {
		ex.retryAttempts++
		err := ex.callValue(fr, op, nil, 0)
		if e, ok := err.(Iface); ok && e.t == nil {
			return nilErr()
		}
		if e, ok := err.(Iface); ok && e.t.String() == "*github.com/cenkalti/backoff/v4.PermanentError" {
			// backoff.Permanent: Retry stops at once and returns the wrapped error
			if p, ok := e.v.(*Value); ok && p != nil {
				if st, ok := (*p).(Struct); ok && len(st) == 1 {
					return st[0]
				}
			}
		}
		if ex.ctxDone(ctx) {
			return ex.mkError("context done", nil)
		}
		if i >= bound {
			panic(&pathEnd{reason: "unwind", detail: fmt.Sprintf("backoff.Retry: more than %d failed attempts without the context ending", bound)})
		}
		if ex.clock != nil {
			next := tt.BV(64, 0)
			if iv, ok := inner.(Iface); ok && iv.t != nil {
				if so, stub := iv.v.(StubObject); stub {
					next = so.Invoke(ex, fr, "NextBackOff", nil).(*Term)
				} else if m := ex.eng.prog.LookupMethod(iv.t, nil, "NextBackOff"); m != nil {
					next = ex.callFunction(fr, m, []Value{iv.v}, nil, 0).(*Term)
				}
			} else if so, ok := inner.(StubObject); ok {
				next = so.Invoke(ex, fr, "NextBackOff", nil).(*Term)
			}
			if ex.branch(tt.Eq(next, tt.BV(64, ^uint64(0)))) { // backoff.Stop
				return err
			}
			wake := tt.Bin(OAdd, ex.clock, next)
			if dl := ex.ctxDeadline(ctx); dl != nil {
				if ex.branch(tt.Cmp(OSle, dl, wake)) {
					ex.clock = dl
					return ex.mkError("context deadline exceeded", nil)
				}
			}
			ex.clock = wake
		}
	}
}

var _ = fmt.Sprintf

package main

// Path exploration: decision-prefix work list processed by a pool of workers, each
// with its own solver process. Every path is re-executed from the harness entry.

import (
	"fmt"
	"os"
	"runtime/debug"
	"sort"
	"strings"
	"sync"
	"time"

	"golang.org/x/tools/go/ssa"
)

type HarnessResult struct {
	Name         string
	Paths        int
	Decisions    int
	BranchQ      int
	AssertQ      int
	AssertOK     int
	AssertTriv   int
	Unknown      int
	Status       map[string]int
	Inconcl      []string // details of inconclusive paths (deduplicated)
	Violations   []Violation
	Funcs        map[string]bool
	Reached      map[string]bool
	Asserts      map[string]int
	Witnesses    [][]Draw
	SolverS      float64
	SolverChecks int
	WallS        float64
	Steps        int
	MaxPaths     bool
	StoppedEarly bool
}

type explorer struct {
	eng                 *Engine
	h                   *HarnessSpec
	mu                  sync.Mutex
	cond                *sync.Cond
	work                [][]int64
	active              int
	res                 *HarnessResult
	maxPaths            int
	stop                bool
	inconSeen           map[string]bool
	violSeen            map[string]bool
	violCount           map[string]int
	deadline            time.Time
	stoppedForViolation bool
}

func (e *Engine) Explore(h *HarnessSpec, workers int, maxPaths int, budget time.Duration) *HarnessResult {
	x := &explorer{eng: e, h: h, maxPaths: maxPaths, inconSeen: map[string]bool{}, violSeen: map[string]bool{}, violCount: map[string]int{}}
	x.cond = sync.NewCond(&x.mu)
	x.res = &HarnessResult{Name: h.Name, Status: map[string]int{}, Funcs: map[string]bool{}, Reached: map[string]bool{}, Asserts: map[string]int{}}
	x.work = [][]int64{nil}
	if budget > 0 {
		x.deadline = time.Now().Add(budget)
	}
	t0 := time.Now()
	var wg sync.WaitGroup
	sols := make([]*Solver, workers)
	for i := 0; i < workers; i++ {
		wg.Add(1)
		go func(i int) {
			defer wg.Done()
			var logw *os.File
			if p := os.Getenv("SYMGO_SMTLOG"); p != "" && i == 0 {
				logw, _ = os.Create(p)
			}
			var sol *Solver
			var err error
			if logw != nil {
				sol, err = NewSolver(e.solverKind, e.timeoutMs, logw)
			} else {
				sol, err = NewSolver(e.solverKind, e.timeoutMs, nil)
			}
			if err != nil {
				x.mu.Lock()
				x.res.Status["engine-error"]++
				x.res.Inconcl = append(x.res.Inconcl, "cannot start solver: "+err.Error())
				x.mu.Unlock()
				return
			}
			sols[i] = sol
			x.worker(sol)
			sol.Close()
		}(i)
	}
	wg.Wait()
	for _, s := range sols {
		if s != nil {
			x.res.SolverS += s.wall.Seconds()
			x.res.SolverChecks += s.nCheck
			if s.nErrors > 0 {
				x.res.Status["solver-error"] += s.nErrors
				x.res.Inconcl = append(x.res.Inconcl, "solver error: "+s.lastErr)
			}
		}
	}
	x.res.WallS = time.Since(t0).Seconds()
	return x.res
}

func (x *explorer) worker(sol *Solver) {
	for {
		x.mu.Lock()
		for len(x.work) == 0 && x.active > 0 && !x.stop {
			x.cond.Wait()
		}
		if x.stop || (len(x.work) == 0 && x.active == 0) {
			x.mu.Unlock()
			x.cond.Broadcast()
			return
		}
		p := x.work[len(x.work)-1]
		x.work = x.work[:len(x.work)-1]
		x.active++
		x.mu.Unlock()

		out := x.eng.runPath(x.h, sol, p)

		x.mu.Lock()
		x.active--
		x.merge(out)
		if x.maxPaths > 0 && x.res.Paths >= x.maxPaths && (len(x.work) > 0 || x.active > 0) {
			x.stop = true
			x.res.MaxPaths = true
		}
		if !x.deadline.IsZero() && time.Now().After(x.deadline) && (len(x.work) > 0 || x.active > 0) {
			x.stop = true
			if x.stoppedForViolation {
				x.res.StoppedEarly = true
			} else {
				x.res.MaxPaths = true
			}
		}
		x.mu.Unlock()
		x.cond.Broadcast()
	}
}

func (x *explorer) merge(out *PathResult) {
	r := x.res
	r.Paths++
	r.Status[out.status]++
	r.BranchQ += out.nBranchQ
	r.Decisions += out.nEdges
	r.AssertQ += out.nAssertQ
	r.AssertOK += out.nAssertOK
	r.AssertTriv += out.nAssertTriv
	r.Unknown += out.nUnknown
	r.Steps += out.steps
	x.work = append(x.work, out.newPrefixes...)
	for f := range out.funcs {
		r.Funcs[f.String()] = true
	}
	for k := range out.reached {
		r.Reached[k] = true
	}
	for k, n := range out.asserts {
		r.Asserts[k] += n
	}
	switch out.status {
	case "unsupported", "unwind", "budget", "engine-error", "infeasible":
		if !x.inconSeen[out.status+out.detail] {
			x.inconSeen[out.status+out.detail] = true
			r.Inconcl = append(r.Inconcl, out.status+": "+out.detail)
		}
	}
	if out.nUnknown > 0 && out.detail != "" && !x.inconSeen["u"+out.detail] {
		x.inconSeen["u"+out.detail] = true
		r.Inconcl = append(r.Inconcl, "unknown: "+out.detail)
	}
	for _, v := range out.violations {
		key := v.Kind + "|" + v.Label
		// keep a varied set of candidates per assertion: at most two per structural shape
		// (the values of the choice / bool / length draws), at most twelve in all - a
		// candidate whose native confirmation depends on real MAC or cipher values may not
		// reproduce while one of another shape does
		shape := key + "|"
		for _, d := range v.Tape {
			switch d.Kind {
			case "choice", "bool", "len":
				if len(d.Val) > 0 {
					shape += fmt.Sprintf("%d,", d.Val[0])
				}
			}
		}
		if x.violCount[shape] >= 2 {
			continue
		}
		if x.violCount[key] >= 12 {
			// the first eight stay; the last four slots rotate through the shapes found
			// later (exploration usually meets the small sizes first, and a change that only
			// shows from a certain size on needs a later candidate to reproduce natively)
			x.violCount[shape]++
			x.violCount[key]++
			slot, seen := 8+(x.violCount[key]-13)%4, 0
			for i := range r.Violations {
				if r.Violations[i].Kind+"|"+r.Violations[i].Label != key {
					continue
				}
				if seen == slot {
					r.Violations[i] = v
					break
				}
				seen++
			}
			continue
		}
		x.violCount[key]++
		x.violCount[shape]++
		r.Violations = append(r.Violations, v)
		// a counterexample decides the check: look for a little longer, then stop
		grace := time.Now().Add(30 * time.Second)
		if x.deadline.IsZero() || grace.Before(x.deadline) {
			x.deadline = grace
			x.stoppedForViolation = true
		}
	}
	if out.witness != nil && len(r.Witnesses) < 3 {
		r.Witnesses = append(r.Witnesses, out.witness)
	}
}

func (e *Engine) runPath(h *HarnessSpec, sol *Solver, prefix []int64) (out *PathResult) {
	out = &PathResult{status: "done"}
	sol.Reset()
	ex := &Exec{
		eng: e, h: h, sol: sol, tt: NewTermTable(), prefix: prefix, out: out,
		pcSet: map[*Term]bool{}, globals: map[*ssa.Global]*Value{}, pkgInit: map[*ssa.Package]bool{},
		pkgInitStarted: map[*ssa.Package]bool{},
		lazyIn:         map[*ssa.Global]bool{}, loopVisit: map[*ssa.BasicBlock]int{}, funcsSeen: map[*ssa.Function]bool{},
		reached: map[string]bool{}, assertsSeen: map[string]int{},
	}
	defer func() {
		out.steps = ex.steps
		out.nEdges = len(ex.decisions) - len(prefix) + len(out.newPrefixes)
		if out.nEdges < 0 {
			out.nEdges = 0
		}
		out.funcs = ex.funcsSeen
		out.reached = ex.reached
		out.asserts = ex.assertsSeen
		r := recover()
		if r == nil {
			// normal end: produce a reachability witness for (some) completed paths
			if e.wantWitness {
				func() {
					defer func() { recover() }()
					if tape, ok := ex.model(nil); ok {
						out.witness = tape
					}
				}()
			}
			return
		}
		switch p := r.(type) {
		case *pathEnd:
			out.status = p.reason
			if p.detail != "" && out.detail == "" {
				out.detail = p.detail
			}
		case *progPanic:
			out.status = "panic"
			out.detail = p.String()
			func() {
				defer func() {
					if r2 := recover(); r2 != nil {
						out.nUnknown++
					}
				}()
				tape, ok := ex.model(nil)
				if ok {
					ex.violation("panic", p.kind+"@"+p.fn, p.String(), tape)
				} else {
					out.nUnknown++
					out.detail = "panic path without model: " + p.String()
				}
			}()
		default:
			out.status = "engine-error"
			st := string(debug.Stack())
			if len(st) > 3000 {
				st = st[:3000]
			}
			out.detail = fmt.Sprintf("%v\n%s", r, st)
		}
	}()
	ex.initEager()
	ex.inHarness = true
	ex.callFunction(nil, h.fn, nil, nil, 0)
	return out
}

func (r *HarnessResult) Summary() string {
	var sb strings.Builder
	var st []string
	for k, v := range r.Status {
		st = append(st, fmt.Sprintf("%s=%d", k, v))
	}
	sort.Strings(st)
	fmt.Fprintf(&sb, "%-40s paths=%d steps=%d [%s] asserts ok=%d (trivial %d) queries: branch=%d assert=%d unknown=%d viol=%d solver=%.1fs wall=%.1fs",
		r.Name, r.Paths, r.Steps, strings.Join(st, " "), r.AssertOK, r.AssertTriv, r.BranchQ, r.AssertQ, r.Unknown, len(r.Violations), r.SolverS, r.WallS)
	return sb.String()
}

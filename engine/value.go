package main

import (
	"fmt"
	"go/types"

	"golang.org/x/tools/go/ssa"
)

// Value is one of:
//
//	*Term                      scalar: bool, integers, float64
//	string / SymStr / *OpaqueStr   strings
//	Struct, Array              aggregates (value semantics, copied on load/store)
//	*Value                     pointer to a memory slot (nil pointer = (*Value)(nil))
//	Slice                      slice with concrete geometry
//	*Map
//	Iface                      interface value
//	*ssa.Function, *Closure, *ssa.Builtin, *StubFunc   function values (nil func = nil)
//	Tuple
//	stub objects (*HashObj, ...)
type Value interface{}

type Struct []Value
type Array []Value
type Tuple []Value

type Slice struct {
	data []Value
}

// SymStr is a string of concrete length whose bytes are terms.
type SymStr []*Term

// OpaqueStr is the result of a stubbed formatting call; it can only be passed around
// and compared structurally.
type OpaqueStr struct {
	format string
	args   []Value
}

type Iface struct {
	t types.Type // dynamic type; nil for the nil interface
	v Value
}

type Closure struct {
	fn  *ssa.Function
	env []Value
}

// StubFunc is a function value implemented by the engine.
type StubFunc struct {
	name string
	call func(ex *Exec, args []Value) Value
}

type mapEntry struct {
	key     Value
	val     *Value
	deleted bool
}

type Map struct {
	keyT, valT types.Type
	entries    []*mapEntry
}

// progPanic is a Go-level panic carrying a panic of the interpreted program.
type progPanic struct {
	val  Value  // the panic value (Iface)
	kind string // "index", "slice", "nil", "explicit", "divide", "typeassert", "nilmap"
	msg  string
	pos  string
	fn   string
}

func (p *progPanic) String() string {
	return fmt.Sprintf("panic[%s] %s at %s in %s", p.kind, p.msg, p.pos, p.fn)
}

// pathEnd terminates the current path (not a program panic).
type pathEnd struct {
	reason string // "assume", "done", "unsupported", "unwind", "infeasible", "budget"
	detail string
}

func under(t types.Type) types.Type {
	return types.Unalias(t).Underlying()
}

func (ex *Exec) zero(t types.Type) Value {
	switch u := under(t).(type) {
	case *types.Basic:
		switch {
		case u.Info()&types.IsBoolean != 0:
			return ex.tt.Bool(false)
		case u.Info()&types.IsInteger != 0:
			return ex.tt.BV(intWidth(u), 0)
		case u.Info()&types.IsFloat != 0:
			return ex.tt.FP(0)
		case u.Info()&types.IsString != 0:
			return ""
		case u.Kind() == types.UnsafePointer:
			return (*Value)(nil)
		case u.Kind() == types.UntypedNil:
			return nil
		}
		ex.unsupported("zero value of basic type " + u.String())
	case *types.Pointer:
		return (*Value)(nil)
	case *types.Slice:
		return Slice{}
	case *types.Map:
		return (*Map)(nil)
	case *types.Interface:
		return Iface{}
	case *types.Signature:
		return nil
	case *types.Chan:
		return nil
	case *types.Struct:
		s := make(Struct, u.NumFields())
		for i := range s {
			s[i] = ex.zero(u.Field(i).Type())
		}
		return s
	case *types.Array:
		a := make(Array, u.Len())
		if u.Len() > 0 {
			eu := under(u.Elem())
			if b, ok := eu.(*types.Basic); ok && b.Info()&types.IsInteger != 0 {
				z := ex.tt.BV(intWidth(b), 0)
				for i := range a {
					a[i] = z
				}
				return a
			}
		}
		for i := range a {
			a[i] = ex.zero(u.Elem())
		}
		return a
	case *types.Tuple:
		tp := make(Tuple, u.Len())
		for i := range tp {
			tp[i] = ex.zero(u.At(i).Type())
		}
		return tp
	}
	ex.unsupported("zero value of type " + t.String())
	return nil
}

func intWidth(b *types.Basic) int {
	switch b.Kind() {
	case types.Int8, types.Uint8:
		return 8
	case types.Int16, types.Uint16:
		return 16
	case types.Int32, types.Uint32, types.UntypedRune:
		return 32
	case types.Bool, types.UntypedBool:
		return 1
	default:
		return 64
	}
}

func isSigned(t types.Type) bool {
	if b, ok := under(t).(*types.Basic); ok {
		return b.Info()&types.IsInteger != 0 && b.Info()&types.IsUnsigned == 0
	}
	return false
}

// copyVal makes a deep copy of aggregates (value semantics).
func copyVal(v Value) Value {
	switch x := v.(type) {
	case Struct:
		n := make(Struct, len(x))
		for i, e := range x {
			n[i] = copyVal(e)
		}
		return n
	case Array:
		n := make(Array, len(x))
		for i, e := range x {
			n[i] = copyVal(e)
		}
		return n
	}
	return v
}

// store writes v into the slot, elementwise for aggregates so that pointers into the
// slot's fields stay valid.
func store(addr *Value, v Value) {
	switch x := v.(type) {
	case Struct:
		if dst, ok := (*addr).(Struct); ok && len(dst) == len(x) {
			for i := range x {
				store(&dst[i], x[i])
			}
			return
		}
		*addr = copyVal(v)
	case Array:
		if dst, ok := (*addr).(Array); ok && len(dst) == len(x) {
			for i := range x {
				store(&dst[i], x[i])
			}
			return
		}
		*addr = copyVal(v)
	default:
		*addr = v
	}
}

func load(addr *Value) Value {
	return copyVal(*addr)
}

func strLen(v Value) int {
	switch s := v.(type) {
	case string:
		return len(s)
	case SymStr:
		return len(s)
	}
	panic(fmt.Sprintf("strLen of %T", v))
}

func (ex *Exec) strBytes(v Value) []*Term {
	switch s := v.(type) {
	case string:
		out := make([]*Term, len(s))
		for i := 0; i < len(s); i++ {
			out[i] = ex.tt.BV(8, uint64(s[i]))
		}
		return out
	case SymStr:
		return []*Term(s)
	case *OpaqueStr:
		ex.unsupported("bytes of opaque (formatted) string " + s.format)
	}
	panic(fmt.Sprintf("strBytes of %T", v))
}

// mkStr builds a string value from byte terms (concrete string if all constant).
func mkStr(bs []*Term) Value {
	all := true
	for _, b := range bs {
		if !b.IsConst() {
			all = false
			break
		}
	}
	if all {
		buf := make([]byte, len(bs))
		for i, b := range bs {
			buf[i] = byte(b.cval)
		}
		return string(buf)
	}
	return SymStr(append([]*Term{}, bs...))
}
